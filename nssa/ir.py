"""L3 IR: value-flow graph nodes.

Nodes are plain objects with identity (O(1) hash, never nested tuples).  A node denotes
one evaluation of one expression, i.e. one Python object; later in-place changes of that
object are *new version nodes* kept in the interpreter's ``cur`` store.  Equality of values
is answered by the structural value-numbering facet (``vn``), not by node identity.
"""
from __future__ import annotations

import sys
from typing import Dict, Optional, Tuple

sys.setrecursionlimit(20000)

COMMUTATIVE = {"Add", "Mult", "BitAnd", "BitOr", "BitXor", "Eq", "NotEq", "And", "Or"}
SWAP_CMP = {"Gt": "Lt", "GtE": "LtE"}


class Node:
    __slots__ = ("id", "op", "args", "attr", "site", "extra", "fn")

    def __init__(self, nid, op, args, attr, site):
        self.id = nid
        self.op = op
        self.args = args
        self.attr = attr
        self.site = site
        self.extra = None
        self.fn = None

    def __hash__(self):
        return self.id

    def __eq__(self, other):
        return self is other

    def __repr__(self):
        return f"n{self.id}:{self.op}" + (f"[{_short(self.attr)}]" if self.attr is not None else "")

    # convenience
    @property
    def file(self):
        return self.site[0] if self.site else None

    @property
    def line(self):
        return self.site[1] if self.site else None

    def where(self):
        return f"{self.site[0]}:{self.site[1]}" if self.site else "?"


def _short(a, n=60):
    s = repr(a)
    return s if len(s) <= n else s[: n - 3] + "..."


class Graph:
    def __init__(self):
        self.nodes = []
        self._serial = 0
        self._vn: Dict[int, int] = {}
        self._vn_table: Dict[tuple, int] = {}
        self._const_cache: Dict[tuple, Node] = {}

    def mk(self, op, args=(), attr=None, site=None) -> Node:
        n = Node(len(self.nodes), op, tuple(args), attr, site)
        self.nodes.append(n)
        return n

    def const(self, value, site=None) -> Node:
        key = (type(value).__name__, repr(value))
        n = self._const_cache.get(key)
        if n is None:
            n = self.mk("Const", (), value, site)
            self._const_cache[key] = n
        return n

    def serial(self) -> int:
        self._serial += 1
        return self._serial

    # ------------------------------------------------------- value numbering
    def vn(self, n: Node) -> int:
        """Structural value number: equal numbers => equal values (same operation graph
        over the same leaves).  Commutative operators are order-normalised, ``a>b`` is the
        same as ``b<a``.  Iterative post-order to stay clear of the recursion limit."""
        memo = self._vn
        if n.id in memo:
            return memo[n.id]
        stack = [(n, False)]
        while stack:
            x, done = stack.pop()
            if x.id in memo:
                continue
            if not done:
                stack.append((x, True))
                for a in x.args:
                    if a.id not in memo:
                        stack.append((a, False))
                ex = x.extra
                if ex:
                    for v in ex.values():
                        if isinstance(v, Node) and v.id not in memo:
                            stack.append((v, False))
                continue
            kids = [memo[a.id] for a in x.args]
            op, attr = x.op, x.attr
            if op == "Compare" and attr in SWAP_CMP:
                attr = SWAP_CMP[attr]
                kids = kids[::-1]
            if (op in ("BinOp", "Compare", "BoolOp") and attr in COMMUTATIVE):
                kids = sorted(kids)
            if op == "Input":
                key = ("Input", x.id)       # every input node is its own value, whatever it is called
            elif op == "Const":
                if isinstance(attr, (int, float)) and not isinstance(attr, bool):
                    key = ("Const", "num", repr(float(attr)))
                else:
                    key = ("Const", type(attr).__name__, repr(attr))
            else:
                exk = ()
                if x.extra:
                    exk = tuple(sorted((k, memo[v.id]) for k, v in x.extra.items()
                                       if isinstance(v, Node)))
                try:
                    hash(attr)
                    ak = attr
                except TypeError:
                    ak = repr(attr)
                if op == "Cfg" and x.extra and x.extra.get("root") not in (None, "config"):
                    exk = exk + (("root", x.extra.get("root")),)     # values of different configuration objects
                key = (op, ak, tuple(kids), exk)
            v = self._vn_table.get(key)
            if v is None:
                v = len(self._vn_table) + 1
                self._vn_table[key] = v
            memo[x.id] = v
        return memo[n.id]

    def same(self, a: Node, b: Node) -> bool:
        return a is b or self.vn(a) == self.vn(b)

    # ------------------------------------------------------- printing
    def show(self, n: Node, depth=4, _seen=None) -> str:
        if depth <= 0:
            return "…"
        op = n.op
        a = n.args
        S = lambda x: self.show(x, depth - 1)
        if op == "Const":
            return repr(n.attr)
        if op in ("Input", "LoopVar"):
            return f"{op}({n.attr})"
        if op == "Cfg":
            return "cfg." + ".".join(n.attr)
        if op == "Ext":
            return str(n.attr)
        if op == "State":
            return f"{S(a[0])}.{n.attr}°"
        if op == "Attr":
            return f"{S(a[0])}.{n.attr}"
        if op == "BinOp":
            sym = {"Add": "+", "Sub": "-", "Mult": "*", "Div": "/", "Pow": "**", "Mod": "%",
                   "BitAnd": "&", "BitOr": "|", "BitXor": "^", "FloorDiv": "//",
                   "MatMult": "@"}.get(n.attr, n.attr)
            return f"({S(a[0])} {sym} {S(a[1])})"
        if op == "UnaryOp":
            sym = {"USub": "-", "Invert": "~", "Not": "not ", "UAdd": "+"}[n.attr]
            return f"{sym}{S(a[0])}"
        if op == "Compare":
            sym = {"Lt": "<", "LtE": "<=", "Gt": ">", "GtE": ">=", "Eq": "==", "NotEq": "!=",
                   "Is": "is", "IsNot": "is not", "In": "in", "NotIn": "not in"}[n.attr]
            return f"({S(a[0])} {sym} {S(a[1])})"
        if op == "BoolOp":
            return "(" + f" {n.attr.lower()} ".join(S(x) for x in a) + ")"
        if op == "Subscript":
            return f"{S(a[0])}[{S(a[1])}]"
        if op == "Scatter":
            return f"{S(a[0])}{{[{S(a[1])}]{n.attr or ''}:={S(a[2])}}}"
        if op == "Phi":
            return f"φ({S(a[0])} ? {S(a[1])} : {S(a[2])})"
        if op in ("Tuple", "List"):
            br = "()" if op == "Tuple" else "[]"
            return br[0] + ", ".join(S(x) for x in a) + br[1]
        if op == "Call":
            f = a[0]
            nm = f.attr if f.op == "Ext" else S(f)
            return f"{nm}(" + ", ".join(S(x) for x in a[1:]) + ")"
        if op == "MCall":
            return f"{S(a[0])}.{n.attr[0]}(" + ", ".join(S(x) for x in a[1:]) + ")"
        if op == "Obj":
            return f"<{n.attr[0]}#{n.attr[1]}>"
        if op in ("Func", "Closure", "Class"):
            return f"<{op} {getattr(n.attr, 'qualname', n.attr)}>"
        if op == "Slice":
            f = lambda x: "" if (x.op == "Const" and x.attr is None) else S(x)
            return f"{f(a[0])}:{f(a[1])}" + ("" if a[2].op == "Const" and a[2].attr is None else ":" + S(a[2]))
        return f"{op}" + (f"[{_short(n.attr, 30)}]" if n.attr is not None else "") + \
            ("(" + ", ".join(S(x) for x in a) + ")" if a else "")


def walk(roots, include_extra=True):
    """All nodes reachable from roots (iterative)."""
    seen = {}
    stack = list(roots)
    while stack:
        n = stack.pop()
        if n.id in seen:
            continue
        seen[n.id] = n
        stack.extend(n.args)
        if include_extra and n.extra:
            for v in n.extra.values():
                if isinstance(v, Node):
                    stack.append(v)
    return seen.values()
