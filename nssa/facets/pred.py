"""pred facet: boolean normal form over canonical comparison atoms, decided by truth table.

Atoms:  ('lt', vn(x), vn(y))  meaning x < y ;  ('eq', vn lo, vn hi) ;  ('o', vn) opaque boolean.
  a <= b  ==  not (b < a)      (NaN ignored: stated assumption)
  a >  b  ==  b < a
  a >= b  ==  not (a < b)
Atoms are treated as independent, so 'not a tautology' / 'not implied' answers are conservative.
"""
from __future__ import annotations

import itertools
from typing import Dict, List, Optional, Tuple

from ..ir import Node

MAX_ATOMS = 14


class Pred:
    def __init__(self, interp, poly=None):
        """poly: optional PolyFacet; comparison atoms are then keyed by the normal form of
        (rhs - lhs), so  a<b,  b>a,  0<b-a,  2a<2b  are one atom"""
        self.I = interp
        self.g = interp.g
        self.poly = poly
        self.memo: Dict[int, tuple] = {}
        self.atoms: Dict[tuple, Tuple[str, Optional[Node], Optional[Node]]] = {}

    # ------------------------------------------------------------------ formula construction
    def formula(self, n: Node) -> tuple:
        f = self.memo.get(n.id)
        if f is None:
            f = self._formula(n)
            self.memo[n.id] = f
        return f

    def _poly_atom(self, kind, a: Node, b: Node):
        P = self.poly
        try:
            from .poly import ONE, Val, pkey
            va, vb = P.of(a), P.of(b)
            d = P.add(Val(vb.rat), Val(va.rat), -1)
        except Exception:
            return None
        if d is None or d.rat.den != ONE:
            return None
        num = d.rat.num
        if not num:
            return ("const", kind == "eq")
        c0 = d.rat.is_const()
        if c0 is not None:
            return ("const", (c0 > 0) if kind == "lt" else (c0 == 0))
        first = sorted(num.items())[0]
        c = first[1]
        sc = abs(c)
        x = {m: v / sc for m, v in num.items()}
        if c < 0:
            x = {m: -v for m, v in x.items()}
        key = pkey(x)
        if kind == "lt":
            ak = ("pos" if c > 0 else "neg", key)
        else:
            ak = ("zero", key)
        self.atoms.setdefault(ak, (kind, a, b))
        return ("atom", ak)

    def _atom(self, kind, a: Node, b: Optional[Node] = None):
        if self.poly is not None and kind in ("lt", "eq") and b is not None:
            r = self._poly_atom(kind, a, b)
            if r is not None:
                return r
        va = self.g.vn(a)
        if kind == "lt":
            key = ("lt", va, self.g.vn(b))
            self.atoms.setdefault(key, ("lt", a, b))
        elif kind == "eq":
            vb = self.g.vn(b)
            if vb < va:
                a, b, va, vb = b, a, vb, va
            key = ("eq", va, vb)
            self.atoms.setdefault(key, ("eq", a, b))
        else:
            key = ("o", va)
            self.atoms.setdefault(key, ("o", a, None))
        return ("atom", key)

    def _formula(self, n: Node) -> tuple:
        op = n.op
        if op == "Const" and isinstance(n.attr, (bool,)):
            return ("const", bool(n.attr))
        if op == "Compare":
            a, b = n.args
            k = n.attr
            if k == "Lt":
                return self._atom("lt", a, b)
            if k == "Gt":
                return self._atom("lt", b, a)
            if k == "LtE":
                return ("not", self._atom("lt", b, a))
            if k == "GtE":
                return ("not", self._atom("lt", a, b))
            if k == "Eq":
                return self._atom("eq", a, b)
            if k == "NotEq":
                return ("not", self._atom("eq", a, b))
            return self._atom("o", n)
        if op == "BinOp" and n.attr in ("BitAnd", "BitOr", "BitXor"):
            l, r = self.formula(n.args[0]), self.formula(n.args[1])
            return ({"BitAnd": "and", "BitOr": "or", "BitXor": "xor"}[n.attr], l, r)
        if op == "BoolOp":
            parts = tuple(self.formula(a) for a in n.args)
            return (("and" if n.attr == "And" else "or"),) + parts
        if op == "UnaryOp" and n.attr in ("Invert", "Not"):
            return ("not", self.formula(n.args[0]))
        if op == "Phi" and self._boolish(n.args[1]) and self._boolish(n.args[2]):
            # a truth value chosen by a decision (`return False` early, else the test): (c and a) or (not c and b)
            c, a, b = (self.formula(x) for x in n.args)
            return ("or", ("and", c, a), ("and", ("not", c), b))
        if op == "Scatter" and n.attr is None and n.args[2].op == "Const" and isinstance(n.args[2].attr, bool):
            # m[c] = False  is  m & ~c ;  m[c] = True  is  m | c   (element-wise, c a mask over the same elements)
            base, cnd = self.formula(n.args[0]), self.formula(n.args[1])
            return ("and", base, ("not", cnd)) if n.args[2].attr is False else ("or", base, cnd)
        if op == "Call" and n.args[0].op == "Ext":
            q = n.args[0].attr
            if q in ("numpy.logical_and.reduce", "numpy.all") and len(n.args) == 2 and \
                    n.args[1].op in ("List", "Tuple"):
                return ("and",) + tuple(self.formula(a) for a in n.args[1].args)
            if q in ("numpy.logical_or.reduce", "numpy.any") and len(n.args) == 2 and \
                    n.args[1].op in ("List", "Tuple"):
                return ("or",) + tuple(self.formula(a) for a in n.args[1].args)
            if q in ("numpy.asarray", "numpy.array", "numpy.bool_", "builtins.bool", "numpy.copy") and len(n.args) >= 2:
                return self.formula(n.args[1])
        if op == "MCall" and n.attr[0] in ("copy", "astype") and n.args:
            return self.formula(n.args[0])
        return self._atom("o", n)

    def _boolish(self, n: Node, depth=0) -> bool:
        if n.op == "Const":
            return isinstance(n.attr, bool)
        if n.op in ("Compare", "IsInstance", "BoolOp"):
            return True
        if n.op == "UnaryOp":
            return n.attr == "Not"
        if n.op == "Phi" and depth < 6:
            return self._boolish(n.args[1], depth + 1) and self._boolish(n.args[2], depth + 1)
        return False

    # ------------------------------------------------------------------ decision
    def atoms_of(self, f, acc=None) -> List[tuple]:
        acc = [] if acc is None else acc
        if f[0] == "atom":
            if f[1] not in acc:
                acc.append(f[1])
        elif f[0] != "const":
            for x in f[1:]:
                self.atoms_of(x, acc)
        return acc

    @staticmethod
    def ev(f, env) -> bool:
        t = f[0]
        if t == "atom":
            return env[f[1]]
        if t == "const":
            return f[1]
        if t == "not":
            return not Pred.ev(f[1], env)
        if t == "and":
            return all(Pred.ev(x, env) for x in f[1:])
        if t == "or":
            return any(Pred.ev(x, env) for x in f[1:])
        if t == "xor":
            return Pred.ev(f[1], env) != Pred.ev(f[2], env)
        raise ValueError(t)

    def _assignments(self, atoms):
        """all assignments consistent with the order axioms between lt-atoms over the same pair
        (x<y and y<x cannot both hold; x==y excludes both)"""
        if len(atoms) > MAX_ATOMS:
            return None
        idx = {a: i for i, a in enumerate(atoms)}
        excl = []
        for a in atoms:
            if a[0] == "lt":
                rev = ("lt", a[2], a[1])
                if rev in idx and idx[a] < idx[rev]:
                    excl.append((a, rev))
                eq = ("eq", min(a[1], a[2]), max(a[1], a[2]))
                if eq in idx:
                    excl.append((a, eq))
            if a[0] in ("pos", "neg", "zero"):
                for other in ("pos", "neg", "zero"):
                    o = (other, a[1])
                    if other != a[0] and o in idx and idx[a] < idx[o]:
                        excl.append((a, o))
        # order axioms between comparisons of one quantity with numeric constants:
        #   x < c1  =>  x < c2   (c1 <= c2);   c1 < x  =>  c2 < x   (c2 <= c1);   not (x < c1 and c2 < x)   (c1 <= c2)
        impl = []
        bounds = []
        for a in atoms:
            if a[0] != "lt" or a not in self.atoms:
                continue
            _k, na, nb = self.atoms[a]
            ca, cb = self._num(na), self._num(nb)
            if cb is not None and ca is None:
                bounds.append((a, a[1], "ub", cb))
            elif ca is not None and cb is None:
                bounds.append((a, a[2], "lb", ca))
        for (a1, x1, k1, c1), (a2, x2, k2, c2) in itertools.permutations(bounds, 2):
            if x1 != x2:
                continue
            if k1 == k2 == "ub" and c1 <= c2:
                impl.append((a1, a2))
            elif k1 == k2 == "lb" and c2 <= c1:
                impl.append((a1, a2))
            elif k1 == "ub" and k2 == "lb" and c1 <= c2:
                excl.append((a1, a2))
        out = []
        for bits in itertools.product((False, True), repeat=len(atoms)):
            env = dict(zip(atoms, bits))
            if any(env[x] and env[y] for x, y in excl):
                continue
            if any(env[x] and not env[y] for x, y in impl):
                continue
            out.append(env)
        return out

    @staticmethod
    def _num(n):
        """numeric constant denoted by node n (through dtype casts), or None"""
        for _ in range(3):
            if n is None:
                return None
            if n.op == "Const" and isinstance(n.attr, (int, float)) and not isinstance(n.attr, bool):
                return n.attr
            if n.op == "UnaryOp" and n.attr == "USub":
                v = Pred._num(n.args[0])
                return None if v is None else -v
            if n.op == "Call" and len(n.args) == 2 and n.args[0].op == "Ext" and n.args[0].attr in (
                    "numpy.float32", "numpy.float64", "builtins.float", "numpy.asarray"):
                n = n.args[1]
                continue
            return None
        return None

    def forall(self, f, *others) -> Optional[Tuple[bool, Optional[dict]]]:
        """is f true under every consistent assignment?  returns (bool, counterexample)"""
        atoms = self.atoms_of(f)
        envs = self._assignments(atoms)
        if envs is None:
            return None
        for env in envs:
            if not self.ev(f, env):
                return False, env
        return True, None

    def equivalent(self, f, g):
        return self.forall(("not", ("xor", f, g)))

    def implies(self, f, g):
        return self.forall(("or", ("not", f), g))

    def tautology(self, f):
        return self.forall(f)

    def disjoint(self, f, g):
        return self.forall(("not", ("and", f, g)))

    # ------------------------------------------------------------------ display
    def show_atom(self, key) -> str:
        kind, a, b = self.atoms[key]
        S = lambda x: self.g.show(x, 3)
        if key[0] in ("pos", "neg", "zero"):
            return f"{S(a)} {'<' if kind == 'lt' else '=='} {S(b)}"
        if kind == "lt":
            return f"{S(a)} < {S(b)}"
        if kind == "eq":
            return f"{S(a)} == {S(b)}"
        return S(a)

    def show(self, f) -> str:
        t = f[0]
        if t == "atom":
            return self.show_atom(f[1])
        if t == "const":
            return str(f[1])
        if t == "not":
            return "¬(" + self.show(f[1]) + ")"
        sym = {"and": " ∧ ", "or": " ∨ ", "xor": " ⊕ "}[t]
        return "(" + sym.join(self.show(x) for x in f[1:]) + ")"

    def show_env(self, env) -> str:
        return ", ".join(f"[{self.show_atom(k)}]={'T' if v else 'F'}" for k, v in env.items())

    # ------------------------------------------------------------------ reference formulas
    def lt(self, a: Node, b: Node):
        return self._atom("lt", a, b)

    def le(self, a: Node, b: Node):
        return ("not", self._atom("lt", b, a))

    def eq(self, a: Node, b: Node):
        return self._atom("eq", a, b)
