"""unit facet: dimension / angle kind / decimal scale / log10 flag of values.

U(dims, ang, dec, log)   dims: {L,T,E,F: exponent}; ang in {None,'rad','deg'};
                         dec: decimal exponent of the unit relative to SI base (km: L=1, dec=3);
                         log: the number is log10 of a quantity with unit `logof`.
POLY  numeric literal (adapts to the other side);  TOP unknown.
Conflicts are reported only between two definite facts."""
from __future__ import annotations

import math
from fractions import Fraction
from typing import Dict, List, Optional

from .. import extmodels as X
from ..ir import Node


class U:
    __slots__ = ("dims", "ang", "dec", "log", "logof")

    def __init__(self, dims=None, ang=None, dec=0, log=False, logof=None):
        self.dims = {k: Fraction(v) for k, v in (dims or {}).items() if v != 0}
        self.ang = ang
        self.dec = Fraction(dec)
        self.log = log
        self.logof = logof

    def key(self):
        return (tuple(sorted(self.dims.items())), self.ang, self.dec, self.log,
                self.logof.key() if self.logof is not None else None)

    def __eq__(self, o):
        return isinstance(o, U) and self.key() == o.key()

    def __hash__(self):
        return hash(self.key())

    def is_pure(self):
        return not self.dims and self.ang is None and not self.log and self.dec == 0

    def __repr__(self):
        if self.log:
            return f"log10({self.logof!r})"
        parts = []
        for k, v in sorted(self.dims.items()):
            parts.append(k if v == 1 else f"{k}^{v}")
        s = "·".join(parts) if parts else ("1" if self.ang is None else "")
        if self.ang:
            s = (s + " " if s else "") + self.ang
        if self.dec != 0:
            s = f"1e{self.dec}·{s}"
        for name, u in NAMED.items():
            if u.key() == self.key():
                return name
        return s


class _Poly:
    def __repr__(self):
        return "literal"


class _Top:
    def __repr__(self):
        return "?"


POLY = _Poly()
TOP = _Top()
PURE = U()
RAD = U(ang="rad")
DEG = U(ang="deg")
KM = U({"L": 1}, dec=3)
M = U({"L": 1})
M2 = U({"L": 2})
S_ = U({"T": 1})
M_PER_S = U({"L": 1, "T": -1})
KM_PER_S = U({"L": 1, "T": -1}, dec=3)
GEV = U({"E": 1}, dec=9)
HPEV = U({"E": 1}, dec=17)       # 100 PeV
EEV = U({"E": 1}, dec=18)        # 10^18 eV
MHZ = U({"F": 1}, dec=6)
HZ = U({"F": 1})
DB = U({"dB": 1})
LOG_GEV = U(log=True, logof=GEV)
NAMED = {"pure": PURE, "rad": RAD, "deg": DEG, "km": KM, "m": M, "m^2": M2, "s": S_, "m/s": M_PER_S,
         "km/s": KM_PER_S, "GeV": GEV, "100PeV": HPEV, "EeV": EEV, "MHz": MHZ, "Hz": HZ, "dB": DB,
         "log10(GeV)": LOG_GEV}
ASTROPY_UNITS = {"astropy.units.km": KM, "astropy.units.m": M, "astropy.units.rad": RAD,
                 "astropy.units.deg": DEG, "astropy.units.s": S_, "astropy.units.MHz": MHZ,
                 "astropy.units.dB": DB, "astropy.units.Hz": HZ}


def definite(u):
    return isinstance(u, U)


def compatible(a: U, b: U) -> bool:
    """may the two be added / compared / stored into one array?"""
    if a.log != b.log:
        return False
    if a.log:
        return a.logof is None or b.logof is None or compatible(a.logof, b.logof)
    if a.dims != b.dims or a.dec != b.dec:
        return False
    if a.ang == b.ang:
        return True
    # radians are dimensionless numbers; degrees are not interchangeable with them
    return {a.ang, b.ang} == {None, "rad"}


def pow10(x) -> Optional[int]:
    """k if x == 10**k exactly (k != 0)"""
    if isinstance(x, bool) or not isinstance(x, (int, float)) or x <= 0:
        return None
    k = round(math.log10(x))
    if k != 0 and abs(x - 10.0 ** k) <= 1e-12 * max(abs(x), 10.0 ** k):
        return k
    return None


class Conflict:
    def __init__(self, node, what, a, b):
        self.node = node
        self.what = what
        self.a = a
        self.b = b

    def __repr__(self):
        return f"<unit conflict {self.what}: {self.a!r} vs {self.b!r} at {self.node.where()}>"


class UnitFacet:
    def __init__(self, interp, seeds=None, cfg_units=None, global_units=None):
        self.I = interp
        self.g = interp.g
        self.memo: Dict[int, object] = {}
        self.conflicts: List[Conflict] = []
        self.cfg_units = cfg_units or {}
        self.global_units = global_units or {}
        self._busy = set()
        self.trig_sites = 0
        for n, u in (seeds or {}).items():
            self.memo[n] = u

    def seed(self, n: Node, u):
        self.memo[n.id] = u

    def conflict(self, node, what, a, b):
        self.conflicts.append(Conflict(node, what, a, b))

    # ------------------------------------------------------------------
    def of(self, n: Node):
        u = self.memo.get(n.id)
        if u is not None:
            return u
        if n.id in self._busy:
            return TOP
        self._busy.add(n.id)
        try:
            u = self._of(n)
        finally:
            self._busy.discard(n.id)
        self.memo[n.id] = u
        return u

    def agree(self, a, b, node, what):
        """result of combining two values that must have one unit"""
        if a is TOP or b is TOP:
            return a if definite(a) else (b if definite(b) else TOP)
        if a is POLY:
            return b
        if b is POLY:
            return a
        if not compatible(a, b):
            self.conflict(node, what, a, b)
            return TOP
        if a.ang is None and b.ang is not None:
            return b
        return a

    def _mul(self, a, b, na: Node, nb: Node, sign=1):
        """a * b  (sign=+1)  or  a / b  (sign=-1)"""
        if a is TOP or b is TOP:
            return TOP
        if a is POLY and b is POLY:
            return POLY
        if (a is POLY and definite(b) and b.is_pure()) or (b is POLY and definite(a) and a.is_pure()):
            return POLY          # a literal scaled by a pure number still adapts
        if b is POLY:
            k = pow10(nb.attr) if nb.op == "Const" else None
            if k is not None and definite(a) and (a.dims or a.log is False and a.dec != 0):
                return U(a.dims, a.ang, a.dec - sign * k)
            return a
        if a is POLY:
            k = pow10(na.attr) if na.op == "Const" else None
            if sign == 1:
                if k is not None and b.dims:
                    return U(b.dims, b.ang, b.dec - k)
                return b
            inv = U({d: -e for d, e in b.dims.items()}, None if b.ang else None, -b.dec)
            if k is not None and b.dims:
                return U(inv.dims, inv.ang, inv.dec - k)
            return inv
        if a.log or b.log:
            # scaling a log-quantity by a pure number keeps it a log-quantity
            if a.log and b.is_pure():
                return a
            if b.log and a.is_pure() and sign == 1:
                return b
            return TOP
        dims = dict(a.dims)
        for d, e in b.dims.items():
            dims[d] = dims.get(d, 0) + sign * e
        if a.ang and b.ang:
            ang = None if (sign == -1 and a.ang == b.ang) else None
            if sign == 1:
                return TOP if a.ang != b.ang else U(dims, None, a.dec + sign * b.dec)
        else:
            ang = a.ang or (b.ang if sign == 1 else None)
            if sign == -1 and b.ang and not a.ang:
                ang = None
        return U(dims, ang, a.dec + sign * b.dec)

    def _pow(self, a, k: Fraction):
        if a is TOP or a is POLY:
            return a
        if a.log:
            return TOP
        return U({d: e * k for d, e in a.dims.items()}, a.ang if k == 1 else None, a.dec * k)

    def _const_val(self, n: Node) -> Optional[Fraction]:
        if n.op == "Const" and isinstance(n.attr, (int, float)) and not isinstance(n.attr, bool):
            try:
                return Fraction(repr(n.attr)) if isinstance(n.attr, float) else Fraction(n.attr)
            except Exception:
                return None
        if n.op == "BinOp" and n.attr == "Div":
            a, b = self._const_val(n.args[0]), self._const_val(n.args[1])
            if a is not None and b:
                return a / b
        return None

    def _of(self, n: Node):
        op = n.op
        if op == "Const":
            if isinstance(n.attr, (int, float)) and not isinstance(n.attr, bool):
                gl = n.extra.get("global") if n.extra else None
                if gl and gl in self.global_units:
                    return self.global_units[gl]
                return POLY
            return TOP
        if op == "Cfg":
            return self.cfg_units.get(n.attr, TOP)
        if op == "Ext":
            if n.attr in ("numpy.pi", "math.pi", "numpy.inf", "numpy.nan", "numpy.e"):
                return POLY
            if n.attr == "astropy.constants.c.value":
                return M_PER_S
            return TOP
        if op in ("Input", "State", "Unknown", "Undefined", "LoopVar"):
            return TOP
        if op == "Len":
            return PURE
        if op == "Attr":
            return self._attr(n)
        if op == "BinOp":
            a, b = n.args
            k = n.attr
            if k in ("Add", "Sub"):
                return self.agree(self.of(a), self.of(b), n, "operands of + / - have different units")
            if k == "Mult":
                for x, y in ((a, b), (b, a)):
                    if y.op == "Ext" and y.attr in ASTROPY_UNITS:
                        # number * astropy unit: the number must already be expressed in that unit
                        ux = self.of(x)
                        want = ASTROPY_UNITS[y.attr]
                        if definite(ux) and not compatible(ux, want) and not (ux.is_pure() and want.ang == "rad"):
                            self.conflict(n, "value labelled with an astropy unit it is not expressed in", ux, want)
                        return TOP
                return self._mul(self.of(a), self.of(b), a, b, 1)
            if k == "Div":
                return self._mul(self.of(a), self.of(b), a, b, -1)
            if k == "Pow":
                ua, ub = self.of(a), self.of(b)
                kv = self._const_val(b)
                if a.op == "Const" and a.attr == 10:
                    if definite(ub) and ub.log:
                        return ub.logof if ub.logof is not None else TOP
                    if definite(ub) and not ub.log and (ub.dims or ub.ang):
                        self.conflict(n, "10**x of a value that is not a log10 quantity", ub, "log10(.)")
                    return TOP
                if kv is not None:
                    return self._pow(ua, kv)
                return TOP
            if k == "Mod":
                return self.of(a)
            if k in ("BitAnd", "BitOr", "BitXor"):
                return PURE
            return TOP
        if op == "UnaryOp":
            if n.attr in ("USub", "UAdd"):
                return self.of(n.args[0])
            return PURE
        if op == "Compare":
            if n.attr in ("Lt", "LtE", "Gt", "GtE", "Eq", "NotEq"):
                self.agree(self.of(n.args[0]), self.of(n.args[1]), n, "comparison between different units")
            return PURE
        if op == "BoolOp":
            for a in n.args:
                self.of(a)
            return PURE
        if op == "Subscript":
            self.of(n.args[1])
            return self.of(n.args[0])
        if op == "Scatter":
            base, idx, val = n.args
            self.of(idx)
            ub = self.of(base)
            if n.attr in ("via-view", "method", "del"):
                return ub
            if idx.op == "Const" and isinstance(idx.attr, str):
                self.of(val)
                return TOP           # mapping item assignment, not an array store
            uv = self.of(val)
            return self.agree(ub, uv, n, "value stored into an array of a different unit")
        if op == "Phi":
            self.of(n.args[0])
            a, b = self.of(n.args[1]), self.of(n.args[2])
            if n.args[1].op == "Const" and n.args[1].attr is None:
                return b
            if n.args[2].op == "Const" and n.args[2].attr is None:
                return a
            if a is POLY:
                return b
            if b is POLY:
                return a
            if definite(a) and definite(b):
                return a if compatible(a, b) else TOP
            return TOP
        if op in ("NdChunk", "IterElem", "Elem"):
            return self.of(n.args[0])
        if op == "NdAlloc":
            return TOP
        if op in ("List", "Tuple"):
            u = POLY
            for a in n.args:
                ua = self.of(a)
                if u is POLY:
                    u = ua
                elif definite(u) and definite(ua) and not compatible(u, ua):
                    return TOP
            return u
        if op == "ListOf":
            return self.of(n.args[0])
        if op == "MCall":
            return self._mcall(n)
        if op == "Call":
            return self._call(n)
        return TOP

    def _attr(self, n: Node):
        name = n.attr
        base = n.args[0]
        if name in ("rad", "radian"):
            return RAD
        if name in ("deg", "degree"):
            return DEG
        if name == "value":
            # Quantity.to(unit).value
            if base.op == "Call" and base.args[0].op == "Ext" and base.args[0].attr.endswith(".to") and \
                    len(base.args) >= 2 and base.args[1].op == "Ext":
                return ASTROPY_UNITS.get(base.args[1].attr, TOP)
            if base.op == "MCall" and base.attr[0] == "to" and len(base.args) >= 2 and base.args[1].op == "Ext":
                return ASTROPY_UNITS.get(base.args[1].attr, TOP)
            if base.op == "Ext" and base.attr == "astropy.constants.c":
                return M_PER_S
            return TOP
        if name in ("T", "real", "data"):
            return self.of(base)
        if name in ("size", "shape", "ndim"):
            return PURE
        if name == "eps":
            return POLY
        return TOP

    def _mcall(self, n: Node):
        name = n.attr[0]
        if name in ("astype", "copy", "squeeze", "flatten", "ravel", "reshape", "clip", "round",
                    "sum", "mean", "min", "max", "item", "cumsum"):
            return self.of(n.args[0])
        if name == "to_value" and len(n.args) >= 2 and n.args[1].op == "Const":
            return {"hr": U({"T": 1}), "s": S_, "sec": S_}.get(n.args[1].attr, TOP)
        return TOP

    def _trig_arg(self, n, a: Node):
        ua = self.of(a)
        self.trig_sites += 1
        if definite(ua) and (ua.ang == "deg" or ua.dims or ua.log):
            self.conflict(n, "trigonometric function of a value that is not in radians", ua, RAD)

    def _call(self, n: Node):
        f = n.args[0]
        q, npos, kwn = n.attr[0], n.attr[1], n.attr[2]
        pos = list(n.args[1:1 + npos])
        kws = dict(zip(kwn, n.args[1 + npos:]))
        if f.op != "Ext":
            for a in pos:
                self.of(a)
            return TOP
        s = X.np_short(q) or (q[5:] if q.startswith("math.") else None)
        if s in ("sin", "cos", "tan", "sinh", "cosh", "tanh") and pos:
            self._trig_arg(n, pos[0])
            return PURE
        if s in ("arcsin", "arccos", "arctan") and pos:
            ua = self.of(pos[0])
            self.trig_sites += 1
            if definite(ua) and (ua.dims or ua.ang == "deg"):
                self.conflict(n, "inverse trigonometric function of a dimensional value", ua, PURE)
            return RAD
        if s == "arctan2" and len(pos) >= 2:
            self.trig_sites += 1
            self.agree(self.of(pos[0]), self.of(pos[1]), n, "arctan2 of two different units")
            return RAD
        if s in ("degrees", "rad2deg") and pos:
            ua = self.of(pos[0])
            self.trig_sites += 1
            if definite(ua) and (ua.ang == "deg" or ua.dims):
                self.conflict(n, "degrees() applied to a value that is not in radians", ua, RAD)
            return DEG
        if s in ("radians", "deg2rad") and pos:
            ua = self.of(pos[0])
            self.trig_sites += 1
            if definite(ua) and (ua.ang == "rad" or ua.dims):
                self.conflict(n, "radians() applied to a value that is not in degrees", ua, DEG)
            return RAD
        if s in ("sqrt", "cbrt", "square", "reciprocal") and pos:
            k = {"sqrt": Fraction(1, 2), "cbrt": Fraction(1, 3), "square": Fraction(2),
                 "reciprocal": Fraction(-1)}[s]
            return self._pow(self.of(pos[0]), k)
        if s == "log10" and pos:
            ua = self.of(pos[0])
            return U(log=True, logof=ua if definite(ua) else None)
        if s in ("exp", "log", "log2", "log1p", "expm1") and pos:
            ua = self.of(pos[0])
            if definite(ua) and (ua.dims or ua.ang == "deg"):
                self.conflict(n, f"{s}() of a dimensional value", ua, PURE)
            return PURE
        if s in ("abs", "absolute", "fabs", "negative", "sum", "mean", "amax", "amin", "max", "min",
                 "median", "copy", "asarray", "array", "asanyarray", "squeeze", "ravel", "nan_to_num",
                 "float32", "float64", "single", "double", "cumsum", "sort", "unique", "atleast_1d",
                 "broadcast_to", "reshape", "flip", "ascontiguousarray", "full_like") and pos:
            if s == "full_like" and len(pos) >= 2:
                return self.of(pos[1])
            return self.of(pos[0])
        if s in ("maximum", "minimum", "fmax", "fmin", "hypot") and len(pos) >= 2:
            return self.agree(self.of(pos[0]), self.of(pos[1]), n, f"{s}() of two different units")
        if s == "clip" and pos:
            u = self.of(pos[0])
            for a in pos[1:]:
                u = self.agree(u, self.of(a), n, "clip() bounds in a different unit")
            return u
        if s == "where" and len(pos) == 3:
            self.of(pos[0])
            return self.agree(self.of(pos[1]), self.of(pos[2]), n, "where() branches have different units")
        if s in ("zeros_like", "empty_like", "zeros", "empty"):
            return POLY
        if s == "ones_like" or s == "ones":
            return POLY
        if s == "full":
            v = pos[1] if len(pos) > 1 else kws.get("fill_value")
            return self.of(v) if v is not None else TOP
        if s == "searchsorted" and len(pos) >= 2:
            self.agree(self.of(pos[0]), self.of(pos[1]), n,
                       "searchsorted(grid, x): grid and x are in different units")
            return PURE
        if s in ("linspace", "arange"):
            ends = [a.attr for a in pos[:2] if a.op == "Const" and isinstance(a.attr, (int, float))]
            ends = [abs(e) for e in ends]
            if len(ends) == 2 and sorted(ends) in ([90, 90], [180, 180], [0, 360], [0, 180], [0, 90]):
                return DEG       # degree-literal grid rule
            u = POLY
            for a in pos[:2]:
                u = self.agree(u, self.of(a), n, "grid end points in different units")
            return u
        if s in ("count_nonzero", "argmax", "argmin", "isnan", "isfinite", "isinf", "isclose", "sign",
                 "floor", "ceil", "rint") and pos:
            if s in ("floor", "ceil", "rint"):
                return self.of(pos[0])
            return PURE
        if q.startswith("numpy.random."):
            if s in ("random.uniform",) and len(pos) >= 2:
                return self.agree(self.of(pos[0]), self.of(pos[1]), n, "uniform() bounds in different units")
            return PURE
        if q == "astropy.time.TimeDelta" and pos:
            fmt = kws.get("format")
            ua = self.of(pos[0])
            if fmt is not None and fmt.op == "Const" and fmt.attr in ("sec", "s") and definite(ua) and \
                    not compatible(ua, S_) and not ua.is_pure():
                self.conflict(n, "TimeDelta(format='sec') of a value that is not in seconds", ua, S_)
            return TOP
        if q in ("builtins.float", "builtins.abs", "builtins.min", "builtins.max", "builtins.sum") and pos:
            return self.of(pos[0])
        if q in ("builtins.int", "builtins.len", "builtins.bool"):
            return PURE
        for a in pos:
            self.of(a)
        return TOP


def cfg_units_from_schema(schema) -> Dict[tuple, U]:
    """units of configuration fields, read from the validators in config.py
    (field_validator(...) -> parse_units(x, u.<unit>)); plain floats stay unknown"""
    import ast
    out = {}
    if schema is None:
        return out
    table = {"rad": RAD, "km": KM, "deg": DEG, "MHz": MHZ, "dB": DB, "m": M, "s": S_}
    for path, fld, _conds in schema.leaf_paths():
        m = fld.owner
        for names, mode, fi, deco in m.validators:
            if fld.name not in names:
                continue
            fenv = getattr(fi, "factory_env", None) or {}
            clo = getattr(fi, "factory_closure", None)
            for node in ast.walk(fi.node):
                if isinstance(node, ast.Call) and ast.unparse(node.func).split(".")[-1] == "parse_units" \
                        and len(node.args) == 2:
                    ua = node.args[1]
                    if isinstance(ua, ast.Name) and ua.id in fenv:
                        ua = fenv[ua.id]        # unit captured from the factory call
                    us = ast.unparse(ua)
                    if isinstance(ua, ast.Name) and clo is not None and clo.extra and ua.id in clo.extra.get("env", {}):
                        cv = clo.extra["env"][ua.id]        # unit captured by the evaluated closure
                        if cv.op == "Ext":
                            us = cv.attr
                        elif cv.op == "BinOp" and cv.attr == "Pow" and cv.args[0].op == "Ext" and \
                                cv.args[1].op == "Const" and cv.args[1].attr == 2:
                            us = cv.args[0].attr + "**2"
                    if us.endswith("m ** 2") or us.endswith("m**2"):
                        out[path] = M2
                    else:
                        nm = us.split(".")[-1]
                        if nm in table:
                            out[path] = table[nm]
    return out
