"""poly facet: rational-function normal form over opaque atoms (exact Fractions).

This is ordinary algebraic normalisation (as in value numbering): no solver, no CAS.
Values are  N/D  with N, D polynomials (dict monomial -> Fraction); a monomial is a sorted
tuple of (atom id, exponent Fraction).  Non-algebraic sub-terms are atoms keyed by their own
normalised arguments.  A term zeroed by a mask keeps its polynomial and records the mask
('zero-where' conditions)."""
from __future__ import annotations

from fractions import Fraction
from typing import Dict, FrozenSet, Optional, Tuple

from ..ir import Node

MAX_TERMS = 4000


class PolyOverflow(Exception):
    pass


Poly = Dict[tuple, Fraction]
ONE: Poly = {(): Fraction(1)}


def pkey(p: Poly) -> tuple:
    return tuple(sorted(p.items()))


def padd(a: Poly, b: Poly, sign=1) -> Poly:
    out = dict(a)
    for m, c in b.items():
        v = out.get(m, 0) + sign * c
        if v == 0:
            out.pop(m, None)
        else:
            out[m] = v
    return out


def mmul(m1: tuple, m2: tuple) -> tuple:
    if not m1:
        return m2
    if not m2:
        return m1
    d = dict(m1)
    for a, e in m2:
        v = d.get(a, 0) + e
        if v == 0:
            d.pop(a, None)
        else:
            d[a] = v
    return tuple(sorted(d.items()))


def pmul(a: Poly, b: Poly) -> Poly:
    if len(a) * len(b) > MAX_TERMS * 4:
        raise PolyOverflow()
    out: Poly = {}
    for m1, c1 in a.items():
        for m2, c2 in b.items():
            m = mmul(m1, m2)
            v = out.get(m, 0) + c1 * c2
            if v == 0:
                out.pop(m, None)
            else:
                out[m] = v
    if len(out) > MAX_TERMS:
        raise PolyOverflow()
    return out


def pscale(a: Poly, c: Fraction) -> Poly:
    if c == 0:
        return {}
    return {m: v * c for m, v in a.items()}


class Rat:
    __slots__ = ("num", "den")

    def __init__(self, num: Poly, den: Poly = None):
        self.num = num
        self.den = den if den is not None else ONE

    def key(self):
        return (pkey(self.num), pkey(self.den))

    def is_const(self) -> Optional[Fraction]:
        if self.den == ONE or (len(self.den) == 1 and () in self.den):
            d = self.den[()]
            if not self.num:
                return Fraction(0)
            if len(self.num) == 1 and () in self.num:
                return self.num[()] / d
        return None


class Val:
    __slots__ = ("rat", "zc")

    def __init__(self, rat: Rat, zc: FrozenSet = frozenset()):
        self.rat = rat
        self.zc = zc


def frac_of(x) -> Optional[Fraction]:
    if isinstance(x, bool):
        return None
    if isinstance(x, int):
        return Fraction(x)
    if isinstance(x, float):
        if x != x or x in (float("inf"), float("-inf")):
            return None
        return Fraction(repr(x))
    return None


def _iroot(n: int, q: int) -> Optional[int]:
    if n < 0:
        return None
    r = round(n ** (1.0 / q))
    for c in (r - 1, r, r + 1):
        if c >= 0 and c ** q == n:
            return c
    return None


def eval_formula(f, assign):
    """truth value of a pred-facet formula under a (partial) assignment of its atoms; None if undecided"""
    t = f[0]
    if t == "const":
        return bool(f[1])
    if t == "atom":
        return assign.get(f[1])
    if t == "not":
        v = eval_formula(f[1], assign)
        return None if v is None else (not v)
    vals = [eval_formula(x, assign) for x in f[1:]]
    if t == "and":
        if any(v is False for v in vals):
            return False
        return True if all(v is True for v in vals) else None
    if t == "or":
        if any(v is True for v in vals):
            return True
        return False if all(v is False for v in vals) else None
    if t == "xor":
        if any(v is None for v in vals):
            return None
        r = False
        for v in vals:
            r ^= v
        return r
    return None


def _broadcast_only(idx: Node) -> bool:
    """index made of full slices, None (newaxis) and Ellipsis only"""
    items = idx.args if idx.op == "Tuple" else [idx]
    if not items:
        return False
    for a in items:
        if a.op == "Const" and (a.attr is None or a.attr is Ellipsis):
            continue
        if a.op == "Slice" and all(x.op == "Const" and x.attr is None for x in a.args):
            continue
        return False
    return True


CAST_FUNCS = {"numpy.float32", "numpy.float64", "numpy.single", "numpy.double", "numpy.asarray",
              "numpy.array", "numpy.copy", "builtins.float", "numpy.asanyarray", "numpy.squeeze",
              "numpy.atleast_1d", "numpy.ascontiguousarray"}
POW_FUNCS = {"numpy.sqrt": Fraction(1, 2), "numpy.cbrt": Fraction(1, 3), "numpy.square": Fraction(2),
             "numpy.reciprocal": Fraction(-1), "math.sqrt": Fraction(1, 2)}
FN_NAMES = {"sin", "cos", "tan", "arcsin", "arccos", "arctan", "exp", "log", "log10", "log2",
            "degrees", "radians", "rad2deg", "deg2rad", "arctan2", "sinh", "cosh", "tanh", "floor",
            "ceil", "pow"}
SUM_FUNCS = {"numpy.sum": "sum", "numpy.mean": "mean", "builtins.sum": "sum", "numpy.nansum": "sum"}


class PolyFacet:
    def __init__(self, interp, opaque=None, opaque_ids=None, gather_transparent=False):
        self.I = interp
        self.g = interp.g
        self.memo: Dict[int, Val] = {}
        self.atom_ids: Dict[tuple, int] = {}
        self.atom_info: Dict[int, dict] = {}
        ids = set(opaque_ids or ())
        self.opaque_ids = ids
        f = opaque or (lambda n: False)
        self.opaque = (lambda n: n.id in ids or f(n))   # rule hook: treat node as atom
        self.gather_transparent = gather_transparent
        # clip(x, -1, 1) in front of arccos / arcsin only guards the domain against rounding
        self.domain_clip_transparent = False
        self.mask_nodes: Dict[int, Node] = {}
        # path specialisation: value number of a branch condition -> assumed truth value (Phi nodes on such a
        # condition evaluate to the chosen arm)
        self.assume: Dict[int, bool] = {}
        # with gather_transparent: x[m] where x was last stored under the same mask m evaluates to the stored value
        self.forward_loads = False
        # region specialisation: (pred facet, {atom key: bool}).  A masked store whose mask is decided by the
        # assignment evaluates to the stored value (mask true) or to the previous version (mask false); np.where
        # likewise.  Used to evaluate "the value an element gets in this cell of the mask partition".
        self.cell = None
        # canonical atoms: hook(node) -> hashable key or None; nodes with the same key are one atom
        self.canon = None
        # "value of the stored elements": a masked store over a fresh fill (zeros / empty / full / ones) evaluates
        # to the stored value - the formula the elements kept by that mask (or any sub-mask) carry
        self.stored_value = False

    def zw(self, mask: Node):
        v = self.g.vn(mask)
        self.mask_nodes.setdefault(v, mask)
        return ("zero-where", v)

    # ------------------------------------------------------------------ atoms
    def atom(self, key: tuple, **info) -> int:
        i = self.atom_ids.get(key)
        if i is None:
            i = len(self.atom_ids) + 1
            self.atom_ids[key] = i
            info["key"] = key
            self.atom_info[i] = info
        return i

    def atom_poly(self, aid: int) -> Poly:
        return {((aid, Fraction(1)),): Fraction(1)}

    def node_atom(self, n: Node) -> Val:
        ck = self.canon(n) if self.canon is not None else None
        if ck is not None:
            aid = self.atom(("canon", ck), kind="node", node=n, canon=ck)
            return Val(Rat(self.atom_poly(aid)))
        aid = self.atom(("node", self.g.vn(n)), kind="node", node=n)
        return Val(Rat(self.atom_poly(aid)))

    def const(self, c) -> Val:
        c = Fraction(c)
        return Val(Rat({(): c} if c != 0 else {}))

    # ------------------------------------------------------------------ arithmetic on Val
    def _norm(self, r: Rat) -> Rat:
        num = self._reduce_roots(r.num)
        den = self._reduce_roots(r.den)
        if not den:
            raise ZeroDivisionError("zero denominator")
        if len(den) == 1:
            (m, c), = den.items()
            if m or c != 1:
                inv = tuple((a, -e) for a, e in m)
                num = {mmul(mm, inv): cc / c for mm, cc in num.items()}
                num = self._reduce_roots(num)
            den = ONE
        if not num:
            den = ONE
        return Rat(num, den)

    def _reduce_roots(self, p: Poly) -> Poly:
        """Root_q(S)**e with e >= q  ->  S * Root_q(S)**(e-q)"""
        for _ in range(64):
            hit = None
            for m in p:
                for a, e in m:
                    info = self.atom_info.get(a)
                    if info and info["kind"] == "root" and e >= info["q"]:
                        hit = (m, a, info)
                        break
                if hit:
                    break
            if not hit:
                return p
            m, a, info = hit
            c = p[m]
            rest = {k: v for k, v in p.items() if k != m}
            lower = mmul(m, ((a, Fraction(-info["q"])),))
            rest = padd(rest, pmul({lower: c}, info["S"]))
            p = rest
        return p

    def add(self, a: Val, b: Val, sign=1) -> Val:
        if a.zc != b.zc:
            if not a.rat.num:
                return Val(self._norm(Rat(pscale(b.rat.num, Fraction(sign)), b.rat.den)), b.zc)
            if not b.rat.num:
                return a
            return None
        if a.rat.den == b.rat.den:
            return Val(self._norm(Rat(padd(a.rat.num, b.rat.num, sign), a.rat.den)), a.zc)
        num = padd(pmul(a.rat.num, b.rat.den), pmul(b.rat.num, a.rat.den), sign)
        return Val(self._norm(Rat(num, pmul(a.rat.den, b.rat.den))), a.zc)

    def mul(self, a: Val, b: Val) -> Val:
        return Val(self._norm(Rat(pmul(a.rat.num, b.rat.num), pmul(a.rat.den, b.rat.den))),
                   a.zc | b.zc)

    def inv(self, a: Val) -> Val:
        if not a.rat.num:
            raise ZeroDivisionError()
        return Val(self._norm(Rat(a.rat.den, a.rat.num)), a.zc)

    def div(self, a: Val, b: Val) -> Val:
        return self.mul(a, self.inv(b))

    def neg(self, a: Val) -> Val:
        return Val(Rat(pscale(a.rat.num, Fraction(-1)), a.rat.den), a.zc)

    def powf(self, a: Val, k: Fraction) -> Val:
        if k == 0:
            return Val(Rat(dict(ONE)), a.zc)
        if k < 0:
            return self.powf(self.inv(a), -k)
        num = self._ppow(a.rat.num, k)
        den = self._ppow(a.rat.den, k)
        return Val(self._norm(Rat(num, den)), a.zc)

    def _ppow(self, p: Poly, k: Fraction) -> Poly:
        if p == ONE:
            return dict(ONE)
        if k.denominator == 1 and k.numerator <= 6:
            out = dict(ONE)
            for _ in range(k.numerator):
                out = pmul(out, p)
            return self._reduce_roots(out)
        if len(p) == 1:
            (m, c), = p.items()
            mono = tuple((a, e * k) for a, e in m)
            if k.denominator == 1:
                return self._reduce_roots({mono: c ** k.numerator})
            q = k.denominator
            rn, rd = _iroot(c.numerator, q), _iroot(c.denominator, q)
            if c > 0 and rn is not None and rd is not None:
                return self._reduce_roots({mono: Fraction(rn, rd) ** k.numerator})
            aid = self.atom(("cpow", c, k), kind="cpow", c=c, k=k)
            return self._reduce_roots({mmul(mono, ((aid, Fraction(1)),)): Fraction(1)})
        # a sum: S**k = S**floor(k) * Root_q(S)**p
        n = k.numerator // k.denominator
        f = k - n
        out = dict(ONE)
        if n > 6:
            aid = self.atom(("ipow", pkey(p), n), kind="ipow", S=p, n=n)
            out = self.atom_poly(aid)
        else:
            for _ in range(n):
                out = pmul(out, p)
        if f != 0:
            q = f.denominator
            aid = self.atom(("root", pkey(p), q), kind="root", S=p, q=q)
            out = pmul(out, {((aid, Fraction(f.numerator)),): Fraction(1)})
        return self._reduce_roots(out)

    def equal(self, a: Val, b: Val) -> bool:
        if a is None or b is None:
            return False
        if a.zc != b.zc:
            return False
        l = pmul(a.rat.num, b.rat.den)
        r = pmul(b.rat.num, a.rat.den)
        return self._reduce_roots(l) == self._reduce_roots(r)

    def ratio_const(self, a: Val, b: Val) -> Optional[Fraction]:
        """c such that a == c*b, else None"""
        if not b.rat.num:
            return None
        try:
            q = self.div(a, Val(b.rat, a.zc))
        except ZeroDivisionError:
            return None
        return q.rat.is_const()

    # ------------------------------------------------------------------ node -> Val
    def of(self, n: Node) -> Val:
        v = self.memo.get(n.id)
        if v is None:
            try:
                v = self._of(n)
            except (PolyOverflow, ZeroDivisionError, RecursionError):
                v = None
            if v is None:
                v = self.node_atom(n)
            self.memo[n.id] = v
        return v

    def _const_exponent(self, n: Node) -> Optional[Fraction]:
        c = self.of(n).rat.is_const()
        return c

    def _of(self, n: Node) -> Optional[Val]:
        if self.opaque(n) or (self.canon is not None and self.canon(n) is not None):
            return self.node_atom(n)
        op = n.op
        if op == "Const":
            f = frac_of(n.attr)
            if f is None:
                return self.node_atom(n)
            return self.const(f)
        if op == "Ext":
            if n.attr in ("numpy.pi", "math.pi"):
                return Val(Rat(self.atom_poly(self.atom(("pi",), kind="pi"))))
            return self.node_atom(n)
        if op == "BinOp":
            k = n.attr
            if k in ("Add", "Sub", "Mult", "Div", "Pow"):
                a, b = self.of(n.args[0]), self.of(n.args[1])
                if k == "Add":
                    return self.add(a, b)
                if k == "Sub":
                    return self.add(a, b, -1)
                if k == "Mult":
                    return self.mul(a, b)
                if k == "Div":
                    return self.div(a, b)
                e = b.rat.is_const()
                if e is not None and abs(e) <= 64 and e.denominator <= 12:
                    return self.powf(a, e)
                return self.apply_fn("pow", [a, b], n)
            return self.node_atom(n)
        if op == "UnaryOp":
            if n.attr == "USub":
                return self.neg(self.of(n.args[0]))
            if n.attr == "UAdd":
                return self.of(n.args[0])
            return self.node_atom(n)
        if op == "Subscript" and self.gather_transparent:
            from ..interp_expr import is_basic_index
            if is_basic_index(n.args[1]) is False:
                if self.forward_loads:
                    fw = self._forward(n.args[0], n.args[1])
                    if fw is not None:
                        return fw
                return self.of(n.args[0])
            if _broadcast_only(n.args[1]):
                return self.of(n.args[0])       # x[:, None] only adds an axis
            return self.node_atom(n)
        if op == "Scatter" and self.cell is not None:
            base, idx, val = n.args
            if idx.op == "Tuple" and idx.args and all(
                    (a.op == "Slice" and all(x.op == "Const" and x.attr is None for x in a.args)) or
                    (a.op == "Const" and a.attr is Ellipsis) for a in idx.args[1:]):
                idx = idx.args[0]           # x[mask, :] = v : whole rows selected by the mask
            t = eval_formula(self.cell[0].formula(idx), self.cell[1])
            if t is True:
                return self.of(val)
            if t is False:
                return self.of(base)
            return self.node_atom(n)
        if op == "Scatter" and self.stored_value and n.attr is None:
            base, idx, val = n.args
            zv0 = self.of(val).rat.is_const()
            if zv0 != 0 and base.op == "Call" and base.args and base.args[0].op == "Ext" and \
                    base.args[0].attr.split(".")[-1] in ("zeros", "zeros_like", "empty", "empty_like", "full",
                                                         "full_like", "ones", "ones_like"):
                return self.of(val)
        if op == "Scatter":
            base, idx, val = n.args
            zv = self.of(val).rat.is_const() if n.attr is None else None
            if n.attr is None and zv == 0:
                b = self.of(base)
                return Val(b.rat, b.zc | frozenset([self.zw(idx)]))
            return self.node_atom(n)
        if op == "Phi":
            if self.assume:
                pol = self._assumed(n.args[0])
                if pol is not None:
                    return self.of(n.args[1] if pol else n.args[2])
            a, b = self.of(n.args[1]), self.of(n.args[2])
            if self.equal(a, b):
                return a
            if self.equal(Val(a.rat), Val(b.rat)):
                # same polynomial, zeroed differently on the two branches
                c = n.args[0]
                cv = self.g.vn(c)
                self.mask_nodes.setdefault(cv, c)
                common = a.zc & b.zc
                extra = {("cond", cv, True, it) for it in (a.zc - b.zc)} | \
                        {("cond", cv, False, it) for it in (b.zc - a.zc)}
                return Val(a.rat, common | frozenset(extra))
            return self.node_atom(n)
        if op == "Call" and n.args[0].op == "Ext":
            q = n.args[0].attr
            args = n.args[1:1 + n.attr[1]]
            kwn = n.attr[2]
            if q in ("numpy.reshape", "numpy.expand_dims", "numpy.ravel", "numpy.atleast_2d", "numpy.atleast_3d",
                     "numpy.broadcast_to") and args:
                return self.of(args[0])         # layout only: every element keeps its value
            if q in ("numpy.transpose", "numpy.swapaxes", "numpy.moveaxis") and args and self.gather_transparent:
                return self.of(args[0])         # like x.T: every element keeps its value (only its position changes)
            if q in CAST_FUNCS and args:
                return self.of(args[0])
            if q == "numpy.clip" and self.domain_clip_transparent and len(args) == 3 and \
                    self.of(args[1]).rat.is_const() == -1 and self.of(args[2]).rat.is_const() == 1:
                return self.of(args[0])
            if q in POW_FUNCS and len(args) == 1:
                return self.powf(self.of(args[0]), POW_FUNCS[q])
            if q in ("numpy.abs", "numpy.absolute", "numpy.fabs", "builtins.abs") and len(args) == 1:
                a = self.of(args[0])
                aid = self.atom(("abs", a.rat.key()), kind="abs", inner=a, node=n)
                return Val(Rat(self.atom_poly(aid)), a.zc)
            if q in ("math.prod", "numpy.prod", "numpy.product") and len(args) == 1 and not kwn and \
                    args[0].op in ("Tuple", "List") and args[0].args and \
                    not any(a.op == "Starred" for a in args[0].args):
                r_ = self.of(args[0].args[0])          # product of an explicit sequence: the product of its elements
                for a in args[0].args[1:]:
                    r_ = self.mul(r_, self.of(a))
                return r_
            if q in ("builtins.sum", "math.fsum") and len(args) == 1 and not kwn and \
                    args[0].op in ("Tuple", "List") and args[0].args and \
                    not any(a.op == "Starred" for a in args[0].args):
                r_ = self.of(args[0].args[0])
                for a in args[0].args[1:]:
                    r_ = self.add(r_, self.of(a))
                return r_
            if q in SUM_FUNCS and len(args) >= 1 and "axis" not in kwn and len(args) == 1:
                a = self.of(args[0])
                aid = self.atom((SUM_FUNCS[q], a.rat.key(), tuple(sorted(a.zc))), kind=SUM_FUNCS[q],
                                inner=a, node=n)
                return Val(Rat(self.atom_poly(aid)))
            if q in SUM_FUNCS and len(args) >= 1 and ("axis" in kwn or len(args) == 2):
                # reduction along one axis: still linear in its argument
                a = self.of(args[0])
                axn = n.args[1 + n.attr[1] + list(kwn).index("axis")] if "axis" in kwn else args[1]
                aid = self.atom((SUM_FUNCS[q], a.rat.key(), tuple(sorted(a.zc)), self.g.vn(axn)),
                                kind=SUM_FUNCS[q], inner=a, node=n)
                return Val(Rat(self.atom_poly(aid)))
            if q in ("numpy.outer", "numpy.multiply.outer") and len(args) == 2:
                r_ = self.mul(self.of(args[0]), self.of(args[1]))     # element (i, j) is a[i] * b[j]
                if r_ is not None:
                    return r_
            if q in ("numpy.full", "numpy.full_like") and len(args) >= 2:
                return self.of(args[1])
            if q in ("numpy.zeros", "numpy.zeros_like") and args:
                return self.const(0)
            if q in ("numpy.ones", "numpy.ones_like") and args:
                return self.const(1)
            if q in ("numpy.empty", "numpy.empty_like") and args and self.cell is not None:
                return Val(Rat(self.atom_poly(self.atom(("undefined",), kind="undefined"))))
            if q == "numpy.where" and len(args) == 3 and self.cell is not None:
                t = eval_formula(self.cell[0].formula(args[0]), self.cell[1])
                if t is not None:
                    return self.of(args[1] if t else args[2])
            if q == "numpy.where" and len(args) == 3:
                z = self.of(args[2]).rat.is_const()
                if z == 0:
                    a = self.of(args[1])
                    neg = self.I.mk("UnaryOp", (args[0],), "Invert", n.site)
                    return Val(a.rat, a.zc | frozenset([self.zw(neg)]))
                y = self.of(args[1]).rat.is_const()
                if y == 0:
                    a = self.of(args[2])
                    return Val(a.rat, a.zc | frozenset([self.zw(args[0])]))
                return self.node_atom(n)
            short = q.split(".")[-1]
            if (q.startswith("numpy.") or q.startswith("math.")) and short in FN_NAMES:
                return self.apply_fn(short, [self.of(a) for a in args], n)
            return self.node_atom(n)
        if op == "MCall" and n.attr[0] in ("sum", "mean") and n.args and isinstance(n.attr, tuple) and len(n.attr) >= 3:
            # x.sum(axis) is numpy.sum(x, axis)
            margs = n.args[1:1 + n.attr[1]]
            mkw = n.attr[2]
            if "axis" in mkw or len(margs) == 1:
                axn = n.args[1 + n.attr[1] + list(mkw).index("axis")] if "axis" in mkw else margs[0]
                return self.psum(self.of(n.args[0]), self.g.vn(axn), kind=n.attr[0], node=n)
            if not margs:
                a = self.of(n.args[0])
                aid = self.atom((n.attr[0], a.rat.key(), tuple(sorted(a.zc))), kind=n.attr[0], inner=a, node=n)
                return Val(Rat(self.atom_poly(aid)))
        if op == "MCall" and n.attr[0] in ("copy", "astype", "squeeze", "reshape", "ravel", "flatten") and n.args:
            if n.attr[0] == "astype" and len(n.args) > 1:
                t_ = n.args[1]
                tname = t_.attr if t_.op in ("Ext", "Const") and isinstance(t_.attr, str) else ""
                if "int" in tname.lower() or "bool" in tname.lower() or tname in ("i4", "i8", "u1", "?"):
                    return self.node_atom(n)        # truncation / truth value: not the same number
            return self.of(n.args[0])
        if op == "Attr" and n.attr == "T" and self.gather_transparent:
            return self.of(n.args[0])       # transposition does not change per-element algebra
        return self.node_atom(n)

    def _assumed(self, c: Node):
        pol = True
        while c.op == "UnaryOp" and c.attr == "Not":
            c, pol = c.args[0], not pol
        a = self.assume.get(self.g.vn(c))
        return None if a is None else (a == pol)

    def _forward(self, arr: Node, mask: Node, depth=0):
        """value of arr[mask] when arr's current version is a store under the same mask (store-to-load forwarding)"""
        if depth > 40:
            return None
        if arr.op == "Phi":
            pol = self._assumed(arr.args[0]) if self.assume else None
            if pol is not None:
                return self._forward(arr.args[1] if pol else arr.args[2], mask, depth + 1)
            a, b = self._forward(arr.args[1], mask, depth + 1), self._forward(arr.args[2], mask, depth + 1)
            if a is not None and b is not None and self.equal(a, b):
                return a
            return None
        if arr.op == "Scatter":
            base, idx, val = arr.args
            if not self.g.same(idx, mask):
                # a store under the complement of the mask (x[~m] = ...) leaves the elements selected by m alone: the
                # load sees the version before it
                def negation_of(a_, b_):
                    return a_.op == "UnaryOp" and a_.attr in ("Invert", "Not") and self.g.same(a_.args[0], b_)
                if negation_of(idx, mask) or negation_of(mask, idx):
                    fw = self._forward(base, mask, depth + 1)
                    if fw is not None:
                        return fw
                    return self.of(self.I.mk("Subscript", (base, mask), None, arr.site))
                return None
            # for an augmented store (x[m] *= f) the interpreter records the complete new value old*f
            return self.of(val)
        return None

    def apply_fn(self, name, av, node=None) -> Val:
        name = {"rad2deg": "degrees", "deg2rad": "radians"}.get(name, name)
        if name in ("sin", "cos") and len(av) == 1:
            a = av[0]
            sh = self._shifted_by_half_pi(a)
            if sh is not None:
                a = sh
                name = "sin" if name == "cos" else "cos"
            name, a, sgn = self._odd_even(name, a)
            aid = self.atom(("fn", name, (a.rat.key(),)), kind="fn", name=name, node=node, args=(a,))
            v = Val(Rat(self.atom_poly(aid)))
            return self.neg(v) if sgn < 0 else v
        aid = self.atom(("fn", name, tuple(a.rat.key() for a in av)), kind="fn", name=name,
                        node=node, args=tuple(av))
        return Val(Rat(self.atom_poly(aid)))

    def psum(self, a: Val, axis_vn=None, kind="sum", node=None) -> Val:
        """the reduction of `a` along the axis with value number `axis_vn` (default: the literal -1)"""
        if axis_vn is None:
            axis_vn = self.g.vn(self.I.const(-1))
        aid = self.atom((kind, a.rat.key(), tuple(sorted(a.zc)), axis_vn), kind=kind, inner=a, node=node)
        return Val(Rat(self.atom_poly(aid)))

    def pi(self) -> Val:
        return Val(Rat(self.atom_poly(self.atom(("pi",), kind="pi"))))

    def ref(self, expr: str, env: Dict[str, "Val"]) -> Val:
        """evaluate a reference formula (small Python expression over role names) in the same
        normal form as code-derived values"""
        import ast as _ast
        tree = _ast.parse(expr, mode="eval").body

        def ev(e) -> Val:
            if isinstance(e, _ast.Constant):
                return self.const(frac_of(e.value))
            if isinstance(e, _ast.Name):
                if e.id == "pi":
                    return self.pi()
                if e.id not in env:
                    raise KeyError(f"reference formula role not bound: {e.id}")
                return env[e.id]
            if isinstance(e, _ast.UnaryOp) and isinstance(e.op, _ast.USub):
                return self.neg(ev(e.operand))
            if isinstance(e, _ast.BinOp):
                a, b = ev(e.left), ev(e.right)
                if isinstance(e.op, _ast.Add):
                    r = self.add(a, b)
                elif isinstance(e.op, _ast.Sub):
                    r = self.add(a, b, -1)
                elif isinstance(e.op, _ast.Mult):
                    r = self.mul(a, b)
                elif isinstance(e.op, _ast.Div):
                    r = self.div(a, b)
                elif isinstance(e.op, _ast.Pow):
                    k = b.rat.is_const()
                    if k is None or not (abs(k) <= 64 and k.denominator <= 12):
                        return self.apply_fn("pow", [a, b])
                    r = self.powf(a, k)
                else:
                    raise ValueError("operator")
                if r is None:
                    raise ValueError("mask-condition mismatch in reference formula")
                return r
            if isinstance(e, _ast.Call) and isinstance(e.func, _ast.Name):
                f = e.func.id
                av = [ev(a) for a in e.args]
                if "numpy." + f in POW_FUNCS:
                    return self.powf(av[0], POW_FUNCS["numpy." + f])
                if f == "abs":
                    a = av[0]
                    aid = self.atom(("abs", a.rat.key()), kind="abs", inner=a, node=None)
                    return Val(Rat(self.atom_poly(aid)), a.zc)
                if f == "sum" and len(av) == 1:
                    return self.psum(av[0])          # along the last axis
                if f in FN_NAMES:
                    return self.apply_fn(f, av)
            raise ValueError(f"unsupported reference syntax: {_ast.dump(e)[:80]}")
        return ev(tree)

    def _shifted_by_half_pi(self, a: Val) -> Optional[Val]:
        """if a == pi/2 - x return x"""
        if a.rat.den != ONE:
            return None
        pi = self.atom_ids.get(("pi",))
        if pi is None:
            return None
        m = ((pi, Fraction(1)),)
        if a.rat.num.get(m) != Fraction(1, 2):
            return None
        rest = {k: -v for k, v in a.rat.num.items() if k != m}
        if not rest:
            return None
        return Val(Rat(rest), a.zc)

    def _odd_even(self, name, a: Val):
        """normalise sign of the argument: sin(-x) = -sin(x), cos(-x) = cos(x); canonical sign =
        first monomial (sorted) has positive coefficient"""
        if a.rat.den == ONE and a.rat.num:
            first = sorted(a.rat.num.items())[0]
            if first[1] < 0:
                na = self.neg(a)
                return name, na, (-1 if name == "sin" else 1)
        return name, a, 1

    # ------------------------------------------------------------------ queries
    def monomial(self, v: Val):
        """(coeff, {atom id: exponent}) if v is a single monomial over 1, else None"""
        if v.rat.den != ONE or len(v.rat.num) != 1:
            return None
        (m, c), = v.rat.num.items()
        return c, dict(m)

    def atoms_in(self, v: Val, deep=True):
        out = set()

        def rec_poly(p):
            for m in p:
                for a, _e in m:
                    if a in out:
                        continue
                    out.add(a)
                    if deep:
                        info = self.atom_info[a]
                        if info["kind"] in ("sum", "mean", "abs"):
                            rec_val(info["inner"])
                        elif info["kind"] in ("root", "ipow"):
                            rec_poly(info["S"])
                        elif info["kind"] == "fn":
                            for x in info["args"]:
                                rec_val(x)

        def rec_val(x):
            rec_poly(x.rat.num)
            rec_poly(x.rat.den)
        rec_val(v)
        return out

    def degree(self, v: Val, is_target) -> Optional[Fraction]:
        """degree of homogeneity of v in the atoms selected by is_target(atom id, info);
        None if not homogeneous (or the target occurs inside a non-algebraic atom)"""
        def deg_atom(a) -> Optional[Fraction]:
            info = self.atom_info[a]
            if is_target(a, info):
                return Fraction(1)
            k = info["kind"]
            if k in ("sum", "mean", "abs"):
                return deg_val(info["inner"])
            if k == "root":
                d = deg_poly(info["S"])
                return None if d is None else d / info["q"]
            if k == "ipow":
                d = deg_poly(info["S"])
                return None if d is None else d * info["n"]
            if k == "fn":
                for x in info["args"]:
                    d = deg_val(x)
                    if d is None or d != 0:
                        return None
                return Fraction(0)
            return Fraction(0)

        def deg_poly(p) -> Optional[Fraction]:
            ds = set()
            for m in p:
                t = Fraction(0)
                for a, e in m:
                    d = deg_atom(a)
                    if d is None:
                        return None
                    t += d * e
                ds.add(t)
            if not ds:
                return Fraction(0)
            if len(ds) != 1:
                return None
            return ds.pop()

        def deg_val(x) -> Optional[Fraction]:
            a, b = deg_poly(x.rat.num), deg_poly(x.rat.den)
            if a is None or b is None:
                return None
            return a - b
        return deg_val(v)

    # ------------------------------------------------------------------ display
    def show_atom(self, a) -> str:
        info = self.atom_info[a]
        k = info["kind"]
        if k == "node":
            return self.g.show(info["node"], 3)
        if k == "pi":
            return "π"
        if k == "fn":
            return f"{info['name']}(" + ", ".join(self.show(x) for x in info["args"]) + ")"
        if k in ("sum", "mean"):
            return ("Σ" if k == "sum" else "mean") + "[" + self.show(info["inner"]) + "]"
        if k == "abs":
            return "|" + self.show(info["inner"]) + "|"
        if k == "root":
            return f"root{info['q']}(" + self.show_poly(info["S"]) + ")"
        if k == "ipow":
            return "(" + self.show_poly(info["S"]) + f")^{info['n']}"
        if k == "cpow":
            return f"{info['c']}^{info['k']}"
        return str(info.get("key"))

    def show_poly(self, p: Poly) -> str:
        if not p:
            return "0"
        terms = []
        for m, c in sorted(p.items()):
            fs = []
            if c != 1 or not m:
                fs.append(str(c) if c.denominator != 1 or abs(c.numerator) < 10 ** 6 else f"{float(c):.6g}")
            for a, e in m:
                s = self.show_atom(a)
                fs.append(s if e == 1 else f"{s}^{e}")
            terms.append("·".join(fs))
        return " + ".join(terms)

    def show(self, v: Val) -> str:
        s = self.show_poly(v.rat.num)
        if v.rat.den != ONE:
            s = f"({s}) / ({self.show_poly(v.rat.den)})"
        if v.zc:
            s += f"  [zeroed by {len(v.zc)} mask(s)]"
        return s
