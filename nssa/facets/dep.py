"""dep facet: which leaves a value depends on, and whether only through predicates.

leaf = Input / Cfg / State / rng call / Unknown / LoopVar / Raises, or a row ``Elem(leaf, k)``.
flow kinds: 'v' (value flow) and 'p' (only through a comparison / mask / branch condition)."""
from __future__ import annotations

from typing import Dict, Set, Tuple

from ..interp_expr import is_basic_index
from ..ir import Node

LEAF_OPS = {"Input", "Cfg", "State", "Unknown", "LoopVar", "Raises", "Global", "ExcObj"}


class Dep:
    def __init__(self, interp, extra_leaves=None):
        self.I = interp
        self.g = interp.g
        self.memo: Dict[int, Dict[tuple, Set[str]]] = {}
        self.leaf_nodes: Dict[tuple, Node] = {}
        self.extra_leaves = set(extra_leaves or ())

    def leaf_key(self, n: Node):
        if n.id in self.extra_leaves:
            return ("n", n.id)
        if n.op in LEAF_OPS:
            return ("n", n.id)
        if n.op == "Call" and n.extra and n.extra.get("cat") in ("rng", "clock-env", "io", "io-write"):
            return ("n", n.id)
        if n.op == "Call" and n.extra and n.extra.get("why") in ("call-ext-object",) and \
                n.attr and n.attr[0] is None:
            return None
        if n.op == "Elem" and isinstance(n.attr, int):
            k = self.leaf_key(n.args[0])
            if k is not None and k[0] == "n":
                return ("e", n.args[0].id, n.attr)
        return None

    def of(self, n: Node) -> Dict[tuple, Set[str]]:
        memo = self.memo
        if n.id in memo:
            return memo[n.id]
        stack = [(n, False)]
        while stack:
            x, done = stack.pop()
            if x.id in memo:
                continue
            lk = self.leaf_key(x)
            if lk is not None:
                self.leaf_nodes[lk] = x
                d = {lk: {"v"}}
                if x.op == "Call":
                    # an rng / io call also depends on its arguments (sizes etc.)
                    pass
                memo[x.id] = d
                continue
            kids = list(x.args)
            if x.extra:
                for v in x.extra.values():
                    if isinstance(v, Node) and v is not x and x.op not in ("Subscript", "Attr", "MCall", "NdChunk"):
                        pass
            if not done:
                stack.append((x, True))
                for a in kids:
                    if a.id not in memo:
                        stack.append((a, False))
                continue
            memo[x.id] = self._combine(x, kids)
        return memo[n.id]

    def _combine(self, x: Node, kids) -> Dict[tuple, Set[str]]:
        out: Dict[tuple, Set[str]] = {}

        def add(d, force_p=False):
            for k, kinds in d.items():
                s = out.setdefault(k, set())
                if force_p:
                    s.add("p")
                else:
                    s |= kinds
        op = x.op
        m = self.memo
        if op in ("Compare", "IsInstance") or (op == "BoolOp"):
            for a in kids:
                add(m[a.id], True)
        elif op == "Phi":
            add(m[kids[0].id], True)
            add(m[kids[1].id])
            add(m[kids[2].id])
        elif op == "Subscript":
            add(m[kids[0].id])
            add(m[kids[1].id], force_p=self._is_mask(kids[1]))
        elif op == "Scatter":
            add(m[kids[0].id])
            add(m[kids[1].id], force_p=self._is_mask(kids[1]))
            add(m[kids[2].id])
        elif op == "Call" and kids and kids[0].op == "Ext" and kids[0].attr == "numpy.where" and len(kids) == 4:
            add(m[kids[1].id], True)
            add(m[kids[2].id])
            add(m[kids[3].id])
        else:
            for a in kids:
                add(m[a.id])
        return out

    def _is_mask(self, idx: Node) -> bool:
        if idx.op in ("Compare",):
            return True
        if idx.op == "BinOp" and idx.attr in ("BitAnd", "BitOr", "BitXor"):
            return True
        if idx.op == "UnaryOp" and idx.attr in ("Invert", "Not"):
            return True
        if idx.op == "ViewIdx":
            return self._is_mask(idx.args[1])
        if idx.op == "Tuple":
            return any(self._is_mask(a) for a in idx.args)
        return False

    # ------------------------------------------------------------------ queries
    def leaves(self, n: Node):
        return {k: self.leaf_nodes[k] for k in self.of(n)}

    def depends_on(self, n: Node, leaf: Node) -> Set[str]:
        d = self.of(n)
        kinds = set()
        for k, ks in d.items():
            if (k[0] == "n" and k[1] == leaf.id) or (k[0] == "e" and k[1] == leaf.id):
                kinds |= ks
        return kinds

    def rows_of(self, n: Node, leaf_ids) -> Set[int]:
        """indices k of rows Elem(leaf, k) that n depends on; -1 if it depends on the whole leaf"""
        rows = set()
        for k in self.of(n):
            if k[0] == "e" and k[1] in leaf_ids:
                rows.add(k[2])
            elif k[0] == "n" and k[1] in leaf_ids:
                rows.add(-1)
        return rows

    def show_leaves(self, n: Node) -> str:
        return ", ".join(sorted(self.g.show(self.leaf_nodes[k], 2) + ("" if "v" in ks else "(pred)")
                                for k, ks in self.of(n).items()))
