"""lenclass facet: which event population an array has one entry for.

classes:  ('S',) scalar/constant;  ('EV', tag) one entry per event of population `tag`;
          ('SEL', parent, vn(mask)) the selection of `parent` by boolean mask;
          ('TAB', vn) a table / constant array;  ('TOP',) unknown.
Conflicts are recorded only between two *definite* different classes."""
from __future__ import annotations

from typing import Dict, List, Optional

from .. import extmodels as X
from ..interp_expr import is_basic_index
from ..ir import Node

S = ("S",)
TOP = ("TOP",)


def is_def(c):
    return c[0] in ("EV", "SEL")


class Conflict:
    def __init__(self, node, a, b, what):
        self.node = node
        self.a = a
        self.b = b
        self.what = what


ELEMENTWISE_1 = {"abs", "absolute", "fabs", "sqrt", "exp", "log", "log10", "log2", "sin", "cos", "tan", "arcsin", "arccos",
                 "arctan", "degrees", "radians", "deg2rad", "rad2deg", "square", "reciprocal", "negative", "sign",
                 "floor", "ceil", "sinh", "cosh", "tanh", "float64", "float32", "asarray", "copy", "clip", "nan_to_num"}


class LenClass:
    def __init__(self, interp, seeds: Dict[int, tuple] = None, rowwise_select_funcs=()):
        """rowwise_select_funcs: qualnames of functions in which a 2-D boolean mask selects
        exactly one element per row (allow-listed idiom; the precondition 'one True per row' is
        audited on the shipped tables under C18) - there a masked gather keeps the row class"""
        self.rowwise = set(rowwise_select_funcs)
        self.assume = {}        # vn(condition) -> polarity: resolve merges under an assumption
        self.I = interp
        self.g = interp.g
        self.memo: Dict[int, tuple] = dict(seeds or {})
        self.seeded = set(self.memo)
        self.conflicts: List[Conflict] = []
        self.positional: List = []     # (node, class): slice / integer index along a per-event axis
        self.batch_reductions: List = []   # (node, class, reducer): reduction along the event axis of a transposed array
        self._busy = set()

    @staticmethod
    def _transposed(c):
        """class of x.T: the event axis moves from the first to the last axis and back (for a 1-D array the two
        coincide; ("ROWS", c) combines with c like c itself)"""
        if c[0] == "ROWS":
            return c[1]
        if is_def(c):
            return ("ROWS", c)
        return c

    @staticmethod
    def _column_shape(args):
        """shape arguments (-1, 1, ..., 1): the first axis keeps all elements, only unit axes are added"""
        if len(args) == 1 and args[0].op in ("Tuple", "List"):
            args = list(args[0].args)
        vals = [a.attr if a.op == "Const" and isinstance(a.attr, int) else None for a in args]
        return len(vals) >= 2 and vals[0] == -1 and all(v == 1 for v in vals[1:])

    @staticmethod
    def _first_last(a, b):
        v = sorted(x.attr if x.op == "Const" and isinstance(x.attr, int) else None for x in (a, b)) \
            if all(x.op == "Const" and isinstance(x.attr, int) for x in (a, b)) else None
        return v in ([0, 1], [-1, 0])

    def seed(self, n: Node, c):
        self.memo[n.id] = c
        self.seeded.add(n.id)

    def show(self, c) -> str:
        if c[0] == "S":
            return "scalar"
        if c[0] == "TOP":
            return "?"
        if c[0] == "EV":
            return f"events({c[1]})"
        if c[0] == "TAB":
            return "table"
        if c[0] == "SEL":
            return f"{self.show(c[1])}[mask#{c[2]}]"
        if c[0] == "ROWS":
            return f"{self.show(c[1])} along the last axis"
        return str(c)

    # ------------------------------------------------------------------
    def join(self, a, b, node=None, what="elementwise combination"):
        if a == b:
            return a
        if a[0] in ("S", "TAB") and b[0] in ("S", "TAB"):
            return a if a[0] == "TAB" else b
        if a[0] == "S":
            return b
        if b[0] == "S":
            return a
        if a[0] == "TOP" or b[0] == "TOP":
            return TOP
        # ("ROWS", c): the event axis is the last one (x.T of an events-by-k array, rand(k, N)); a 1-D per-event
        # array of the same population broadcasts along that axis
        if a[0] == "ROWS" and b == a[1]:
            return a
        if b[0] == "ROWS" and a == b[1]:
            return b
        if a[0] == "TAB" or b[0] == "TAB":
            return a if is_def(a) or a[0] == "ROWS" else b
        if node is not None:
            self.conflicts.append(Conflict(node, a, b, what))
        return TOP

    @staticmethod
    def _empty_literal(n: Node) -> bool:
        if n.op in ("List", "Tuple"):
            return not n.args
        if n.op == "Call" and n.args and n.args[0].op == "Ext" and n.attr[1] >= 1:
            q, a = n.args[0].attr, n.args[1]
            if q in ("numpy.array", "numpy.asarray"):
                return a.op in ("List", "Tuple") and not a.args
            if q in ("numpy.empty", "numpy.zeros"):
                return (a.op == "Const" and a.attr == 0 and a.attr is not False) or \
                    (a.op in ("Tuple", "List") and len(a.args) == 1 and a.args[0].op == "Const" and a.args[0].attr == 0)
        return False

    def is_masklike(self, idx: Node) -> bool:
        if idx.op == "Compare":
            return True
        if idx.op == "Tuple" and idx.args and self.is_masklike(idx.args[0]) and \
                all(a.op == "Const" and a.attr is Ellipsis or a.op == "Slice" for a in idx.args[1:]):
            return True
        if idx.op == "BinOp" and idx.attr in ("BitAnd", "BitOr", "BitXor"):
            return True
        if idx.op == "UnaryOp" and idx.attr in ("Invert", "Not"):
            return self.is_masklike(idx.args[0]) or True
        if idx.op == "Phi":
            return self.is_masklike(idx.args[1]) and self.is_masklike(idx.args[2])
        if idx.op == "Call" and idx.args[0].op == "Ext" and idx.args[0].attr in (
                "numpy.isnan", "numpy.isfinite", "numpy.isinf", "numpy.isclose"):
            return True
        return False

    def of(self, n: Node) -> tuple:
        if n is None:
            return TOP          # a value the caller could not identify: unknown population
        c = self.memo.get(n.id)
        if c is not None:
            return c
        if n.id in self._busy:
            return TOP
        self._busy.add(n.id)
        try:
            c = self._of(n)
        finally:
            self._busy.discard(n.id)
        self.memo[n.id] = c
        return c

    def _joinall(self, nodes, node, what="elementwise combination"):
        c = S
        for a in nodes:
            c = self.join(c, self.of(a), node, what)
        return c

    # ------------------------------------------------------------------ events-by-k arrays
    def _array_root(self, n: Node, depth=0) -> Node:
        """the array a selection / updated version was taken from"""
        for _ in range(12):
            if n.op == "Subscript" and self.is_masklike(n.args[1]):
                n = n.args[0]
            elif n.op == "Scatter":
                n = n.args[0]
            else:
                break
        return n

    def collect_matrix_evidence(self, root: Node):
        """Arrays that the code itself treats as events-by-k matrices with the event axis FIRST: whatever is
        transposed before it is combined with a per-event vector ((x.T * v).T), or gets an axis added behind the
        event axis.  Recorded by value number of the array the transposed value was selected from."""
        from ..ir import walk
        ev = getattr(self, "matrix_vns", None)
        if ev is None:
            ev = self.matrix_vns = set()
        for n in walk([root]):
            x = None
            if n.op == "Attr" and n.attr == "T":
                x = n.args[0]
            elif n.op == "Call" and n.args and n.args[0].op == "Ext" and n.args[0].attr in (
                    "numpy.transpose", "numpy.swapaxes") and len(n.args) >= 2:
                x = n.args[1]
            elif n.op == "MCall" and n.attr[0] in ("transpose", "swapaxes") and n.args:
                x = n.args[0]
            if x is None:
                continue
            if x.op == "BinOp" or (x.op == "Attr" and x.attr == "T"):
                continue            # (a.T * v).T: the inner product is events-last; its transpose proves nothing new
            ev.add(self.g.vn(x))
            ev.add(self.g.vn(self._array_root(x)))

    def _is_matrix(self, n: Node, depth=0) -> bool:
        ev = getattr(self, "matrix_vns", None)
        if not ev or depth > 8:
            return False
        if self.g.vn(n) in ev or self.g.vn(self._array_root(n)) in ev:
            return True
        if n.op == "Phi":
            return any(self._is_matrix(a, depth + 1) for a in n.args[1:])
        return False

    def _matrix_shaped(self, n: Node, depth=0) -> bool:
        """the value has a row of values per event: an array the code treats as an events-by-k matrix, an updated /
        scaled version of one, or the (m.T * v).T product.  Used for the shapes of the alternatives of a decision."""
        if depth > 24:
            return False
        if self._is_matrix(n):
            return True
        if n.op == "Scatter":
            return self._matrix_shaped(n.args[0], depth + 1)
        if n.op == "Phi":
            return any(self._matrix_shaped(a, depth + 1) for a in n.args[1:])
        if n.op == "Attr" and n.attr == "T":
            x = n.args[0]
            if x.op == "BinOp":
                return any(a.op == "Attr" and a.attr == "T" and self._matrix_shaped(a.args[0], depth + 1) for a in x.args)
            return False
        if n.op == "BinOp" and n.attr in ("Add", "Sub", "Mult", "Div", "Pow"):
            return any(self._matrix_shaped(a, depth + 1) for a in n.args)
        if n.op == "Call" and n.args and n.args[0].op == "Ext" and n.args[0].attr.startswith("numpy.") and \
                n.args[0].attr.split(".")[-1] in ELEMENTWISE_1 and len(n.args) >= 2:
            return self._matrix_shaped(n.args[1], depth + 1)
        return False

    def _is_vector(self, n: Node, depth=0) -> bool:
        """provably one value per event in a 1-D array: a seeded per-event column, selections of it, and element-wise
        arithmetic / functions of such values and scalars"""
        if depth > 20 or self._is_matrix(n):
            return False
        if n.id in self.seeded:
            return is_def(self.memo.get(n.id, TOP)) and self.memo[n.id][0] != "ROWS"
        if n.op == "Subscript" and self.is_masklike(n.args[1]):
            return self._is_vector(n.args[0], depth + 1)
        if n.op in ("BinOp", "Compare", "BoolOp", "UnaryOp"):
            cs = [self.of(a) for a in n.args]
            return any(is_def(c) for c in cs) and all(
                self._is_vector(a, depth + 1) if is_def(c) else c == S for a, c in zip(n.args, cs))
        if n.op == "Call" and n.args and n.args[0].op == "Ext" and n.args[0].attr.startswith(("numpy.", "math.")) and \
                n.args[0].attr.split(".")[-1] in ELEMENTWISE_1:
            return len(n.args) >= 2 and self._is_vector(n.args[1], depth + 1)
        if n.op == "Call" and n.args and n.args[0].op == "Ext" and n.args[0].attr in (
                "numpy.zeros_like", "numpy.ones_like", "numpy.empty_like", "numpy.full_like") and len(n.args) >= 2 and \
                "shape" not in (n.attr[2] or ()):
            return self._is_vector(n.args[1], depth + 1)       # same shape as its prototype
        return False

    def _axis_alignment(self, n: Node, c):
        """x * v with x an events-by-k matrix (event axis first) and v one value per event: numpy aligns v with the LAST
        axis of x (it raises unless k happens to equal the number of events, and then scales event i, bin j by the
        factor of event j)"""
        if not getattr(self, "matrix_vns", None):
            return
        a, b = n.args
        for m_, v_ in ((a, b), (b, a)):
            if self._is_matrix(m_) and not (m_.op == "Attr" and m_.attr == "T") and self._is_vector(v_):
                self.conflicts.append(Conflict(n, self.of(m_), self.of(v_),
                                               "a per-event vector is combined with an events-by-k array along its last "
                                               "axis (x * v[:, None] or (x.T * v).T aligns it with the events)"))
                return

    def _size_test(self, c: Node, depth=0):
        """the comparison node if the condition singles out batches of exactly one event (size == 1, len(x) < 2, ...):
        a one-element batch is then treated differently from the same event inside a larger batch.  Emptiness tests
        (== 0, < 1, > 0, truthiness, 0 in shape) are guards; other thresholds are not judged here."""
        if depth > 6:
            return None
        if c.op in ("UnaryOp", "BoolOp"):
            for a in c.args:
                r = self._size_test(a, depth + 1)
                if r is not None:
                    return r
            return None
        if c.op != "Compare" or len(c.args) != 2:
            return None
        for x, k in ((c.args[0], c.args[1]), (c.args[1], c.args[0])):
            sized = x
            if x.op == "Call" and x.args and x.args[0].op == "Ext" and x.args[0].attr in ("numpy.size", "builtins.len") \
                    and len(x.args) >= 2:
                sized = self.mk_len(x.args[1])
            cls = self.count_of(sized) if sized is not None else None
            if cls is None or not (is_def(cls) or cls[0] == "ROWS"):
                continue
            if k.op == "Const" and isinstance(k.attr, (int, float)) and not isinstance(k.attr, bool):
                kv = k.attr
                flip = x is c.args[1]
                op = c.attr
                if flip:
                    op = {"Lt": "Gt", "Gt": "Lt", "LtE": "GtE", "GtE": "LtE"}.get(op, op)
                empty_test = (kv == 0 and op in ("Eq", "NotEq", "Gt", "LtE", "In", "NotIn")) or \
                    (kv == 1 and op in ("Lt", "GtE"))
                # "exactly one event" is the case that is special-cased in earnest (a one-element batch read as a
                # scalar or a count); thresholds that pick a faster evaluation of the same kernel are not reported
                single_test = (kv == 1 and op in ("Eq", "NotEq", "LtE", "Gt")) or (kv == 2 and op in ("Lt", "GtE"))
                return c if (single_test and not empty_test) else None
        return None

    def mk_len(self, x: Node):
        return self.I.mk("Len", (x,)) if hasattr(self, "I") and self.I is not None else None

    def count_of(self, n: Node) -> Optional[tuple]:
        """class whose size n denotes: len(x), x.size, x.shape[0], x.shape"""
        if n.op == "Len":
            return self.of(n.args[0])
        if n.op == "Attr" and n.attr in ("size", "shape"):
            return self.of(n.args[0])
        if n.op == "Subscript" and n.args[0].op == "Attr" and n.args[0].attr == "shape":
            return self.of(n.args[0].args[0])
        if n.op == "Tuple" and len(n.args) == 1:
            return self.count_of(n.args[0])
        # number of True entries of a mask = size of the selection by that mask
        m = None
        if n.op == "Call" and n.args and n.args[0].op == "Ext" and n.args[0].attr in (
                "numpy.count_nonzero", "numpy.sum") and len(n.args) == 2:
            m = n.args[1]
        elif n.op == "MCall" and n.attr[0] == "sum" and len(n.args) == 1:
            m = n.args[0]
        if m is not None and self.is_masklike(m):
            cm = self.mask_parent(m)
            return ("SEL", cm, self.g.vn(m)) if cm is not None else None
        if n.op == "Phi":
            a, b = self.count_of(n.args[1]), self.count_of(n.args[2])
            return a if a == b else None
        return None

    def mask_parent(self, m: Node, depth=0):
        """event population a boolean mask ranges over: the class of the mask, else of the per-event array it
        compares (a comparison with a table value of unknown class still ranges over the events)"""
        c = self.of(m)
        if is_def(c):
            return c
        if depth > 6:
            return None
        if m.op in ("Compare", "BinOp", "UnaryOp", "BoolOp"):
            found = [x for x in (self.mask_parent(a, depth + 1) for a in m.args) if x is not None]
            if found and all(f == found[0] for f in found):
                return found[0]
        return None

    def _of(self, n: Node) -> tuple:
        op = n.op
        if op in ("Const", "Cfg", "Ext", "Len", "FStr", "Func", "Closure", "Class", "Module",
                  "IterElem", "IterIdx", "LoopIdx", "IsInstance"):
            return S
        if op in ("Input", "State", "Unknown", "Undefined"):
            return TOP
        if op in ("BinOp", "Compare", "BoolOp"):
            c = self._joinall(n.args, n)
            if len(n.args) == 2 and is_def(c):
                self._axis_alignment(n, c)
            return c
        if op == "UnaryOp":
            return self.of(n.args[0])
        if op == "Phi":
            a, b = n.args[1], n.args[2]
            if self.assume:
                pol = self.assume.get(self.g.vn(n.args[0]))
                if pol is not None:
                    return self.of(a if pol else b)
            if a.op == "Const" and a.attr is None:
                return self.of(b)
            if b.op == "Const" and b.attr is None:
                return self.of(a)
            # the decision itself is part of how the value is made: a test on one position of a per-event array
            # (x[0] == x[-1]) couples every event of the batch (or buffer chunk) to those positions
            n_pos = len(self.positional)
            self.of(n.args[0])
            if len(self.positional) > n_pos:
                self.decided_by_position = getattr(self, "decided_by_position", [])
                self.decided_by_position.append((n, self.positional[n_pos][0]))
            sz = self._size_test(n.args[0])
            if sz is not None:
                if not hasattr(self, "size_decisions"):
                    self.size_decisions = []
                self.size_decisions.append((n, sz))
            # the empty-batch arm of an emptiness guard (`np.array([])`, `np.empty(0)`) holds no event at all: the
            # value belongs to the population of the other arm
            if self._empty_literal(a):
                return self.of(b)
            if self._empty_literal(b):
                return self.of(a)
            ca, cb = self.of(a), self.of(b)
            if ca == cb:
                if is_def(ca) and ((self._matrix_shaped(a) and self._is_vector(b)) or
                                   (self._matrix_shaped(b) and self._is_vector(a))):
                    # one value per event on one arm, a row of values per event on the other: pieces of a batch that
                    # take different arms cannot be put together again (and a broadcast hides the difference)
                    at = n if n.fn is not None else a
                    self.conflicts.append(Conflict(at, ca, cb, "the alternatives of a decision have different shapes "
                                                               "(one value per event / one row per event)"))
                return ca
            if ca == S:
                return cb
            if cb == S:
                return ca
            if (ca[0] == "ROWS" and ca[1] == cb and is_def(cb)) or (cb[0] == "ROWS" and cb[1] == ca and is_def(ca)):
                at = n if n.fn is not None else (a if ca[0] == "ROWS" else b)
                self.conflicts.append(Conflict(at, ca, cb, "the alternatives of a decision place the event axis "
                                                           "differently (one is the transpose of the other)"))
            return TOP
        if op == "Elem":
            c = self.of(n.args[0])
            if c[0] == "ROWS":
                return c[1]
            return TOP
        if op == "Subscript":
            base, idx = n.args
            cb = self.of(base)
            if cb[0] == "ROWS":
                if idx.op == "Const" and isinstance(idx.attr, int):
                    return cb[1]
                return TOP
            if self.is_masklike(idx):
                ci = self.of(idx)
                if n.fn is not None and n.fn.qualname in self.rowwise:
                    return cb if is_def(cb) else ci
                if is_def(ci) and is_def(cb) and ci != cb:
                    self.conflicts.append(Conflict(n, cb, ci, "boolean mask indexes an array of a different "
                                                                "event population"))
                    return TOP
                parent = cb if is_def(cb) else ci
                if not is_def(parent):
                    return TOP
                return ("SEL", parent, self.g.vn(idx))
            b = is_basic_index(idx)
            if b is True:
                if is_def(cb) and self._positional_index(idx):
                    self.positional.append((n, cb))
                if cb[0] in ("S", "TAB"):
                    return cb if self._is_slice(idx) else S
                if idx.op == "Const" and idx.attr is Ellipsis:
                    return cb
                if idx.op == "Tuple" and idx.args and idx.args[0].op == "Slice" and \
                        all(a.op == "Const" and a.attr is None for a in idx.args[0].args):
                    return cb   # x[:, None], x[:, :, k]: the event axis (first axis) is untouched
                return TOP
            ci = self.of(idx)
            if cb[0] in ("S", "TAB", "TOP") and is_def(ci):
                return ci       # table lookup by per-event integer index
            return TOP
        if op == "Scatter":
            base, idx, val = n.args
            cb = self.of(base)
            if n.attr in ("via-view", "method", "del"):
                return cb
            cv = self.of(val)
            if self.is_masklike(idx):
                ci = self.of(idx)
                if is_def(ci) and is_def(cb) and ci != cb:
                    self.conflicts.append(Conflict(n, cb, ci, "store mask belongs to a different event "
                                                                "population than the array it indexes"))
                want = ("SEL", cb if is_def(cb) else ci, self.g.vn(idx))
                if n.extra and n.extra.get("aligned_values"):
                    # np.putmask / np.copyto(where=): the values are taken AT the masked positions of a full-size array
                    if is_def(cv) and is_def(want[1]) and cv != want[1]:
                        self.conflicts.append(Conflict(n, want[1], cv, "np.putmask / np.copyto take their values at the "
                                                                         "masked positions: they must cover every event"))
                elif is_def(cv) and is_def(want[1]) and cv != want:
                    self.conflicts.append(Conflict(n, want, cv, "stored values are not the selection made by "
                                                                "the store mask"))
            elif idx.op == "Const" and idx.attr is Ellipsis:
                if cb[0] == "TOP" or cb == S:
                    return cv
                self.join(cb, cv, n, "full-array store")
            return cb
        if op == "NdChunk":
            return self.of(n.args[0])
        if op == "NdAlloc":
            it = n.args[0]
            ops = it.extra.get("operands", ())
            c = S
            for o in ops:
                if o.op != "NdAlloc":
                    c = self.join(c, self.of(self._cur(o)), it, "nditer operands are iterated together")
            return c
        if op == "NdIter":
            return TOP
        if op == "ListOf":
            bag = n.extra.get("bag") if n.extra else None
            if bag is not None and bag.op == "BagMap" and bag.args[0].op == "Bag":
                seq = bag.args[0].args[0]
                if seq.op == "Zip":
                    return self._joinall(seq.args, n, "sequences zipped into one batch")
                return self.of(seq)
            seq = n.extra.get("seq") if n.extra else None
            if seq is not None:
                if seq.op == "Zip":
                    return self._joinall(seq.args, n, "sequences zipped into one batch")
                return self.of(seq)
            return TOP
        if op == "Attr":
            if n.attr == "T":
                return self._transposed(self.of(n.args[0]))
            if n.attr in ("real", "imag", "value", "data"):
                return self.of(n.args[0])
            if n.attr in ("size", "shape", "ndim", "dtype"):
                return S
            if n.attr in ("rad", "deg", "alt", "az", "jd", "mjd", "distance", "ra", "dec"):
                return self.of(n.args[0])
            return TOP
        if op == "MCall":
            name = n.attr[0]
            if name in ("astype", "copy", "squeeze", "to", "to_value", "flatten",
                        "ravel", "conj", "round", "clip"):
                return self.of(n.args[0])
            if name == "reshape" and len(n.args) >= 2:
                if self._column_shape(n.args[1:]):
                    return self.of(n.args[0])       # x.reshape(-1, 1): one row per element, the population is kept
                # reshape(rows, ...) with rows the length of a per-event array restores that population
                first = n.args[1]
                if first.op in ("Tuple", "List") and first.args:
                    first = first.args[0]           # reshape((rows, cols))
                c = self.count_of(first)
                if c is not None and is_def(c):
                    return c
                return TOP
            if name == "transpose" and len(n.args) == 1:
                return self._transposed(self.of(n.args[0]))
            if name == "swapaxes" and len(n.args) == 3 and self._first_last(n.args[1], n.args[2]):
                return self._transposed(self.of(n.args[0]))
            if name in ("transform_to", "separation"):
                return self._joinall(n.args, n, "astropy acts element-wise on time arrays")
            if name in ("sum", "mean", "min", "max", "std", "var", "any", "all", "item", "argmin", "argmax", "prod"):
                if len(n.args) == 1:
                    return S
                # x.argmin(axis=1): a row-wise reduction keeps the event axis
                npos, kwn = n.attr[1], n.attr[2]
                ax = None
                if "axis" in kwn:
                    ax = n.args[1 + npos + list(kwn).index("axis")]
                elif npos >= 1:
                    ax = n.args[1]
                if ax is not None and ax.op == "Const" and isinstance(ax.attr, int) and ax.attr != 0 and len(n.args) == 2:
                    return self.of(n.args[0])
                return TOP
            return TOP
        if op == "Call":
            return self._call(n)
        if op in ("Tuple", "List"):
            return TOP
        return TOP

    def _cur(self, o):
        return o

    def _positional_index(self, idx: Node) -> bool:
        """does a basic index pick elements of the FIRST axis by position (x[k], x[a:b], x[a:b, ...])?"""
        first = idx.args[0] if idx.op == "Tuple" and idx.args else idx
        if first.op == "Slice":
            return not all(a.op == "Const" and a.attr is None for a in first.args)
        if first.op == "Const":
            return isinstance(first.attr, int) and not isinstance(first.attr, bool)
        if first.op in ("IterIdx", "LoopIdx", "Len"):
            return True
        return False

    def _is_slice(self, idx):
        return idx.op == "Slice" or (idx.op == "Tuple" and any(a.op == "Slice" for a in idx.args))

    def _call(self, n: Node) -> tuple:
        f = n.args[0]
        q, npos, kwn = n.attr[0], n.attr[1], n.attr[2]
        pos = list(n.args[1:1 + npos])
        kws = dict(zip(kwn, n.args[1 + npos:]))
        if f.op != "Ext":
            # callable external object (interpolator etc.): acts row-wise on its points
            if n.extra and n.extra.get("why") == "call-ext-object":
                pts = []
                for a in pos:
                    if a.op in ("Tuple", "List"):
                        pts.extend(a.args)
                    else:
                        pts.append(a)
                return self._joinall(pts, n, "points handed to a row-wise interpolator")
            return TOP
        short = X.np_short(q)
        cat = X.category(q)
        if q in ("builtins.int", "builtins.float", "builtins.bool", "builtins.str", "builtins.len", "builtins.complex"):
            return S            # Python scalars
        if short in X.UFUNC1:
            return self.of(pos[0]) if pos else TOP
        if short in X.UFUNC2:
            return self._joinall(pos, n)
        if short == "where":
            if len(pos) == 3:
                return self._joinall(pos, n)
            return TOP
        if short == "place" and len(pos) == 3:
            # np.place(a, m, v) stores the FIRST count(m) values of v, in order: v must be the selection m makes
            cb, cm, cv = self.of(pos[0]), self.of(pos[1]), self.of(pos[2])
            if is_def(cm) and is_def(cb) and cm != cb:
                self.conflicts.append(Conflict(n, cb, cm, "store mask belongs to a different event "
                                                            "population than the array it indexes"))
            want = ("SEL", cb if is_def(cb) else cm, self.g.vn(pos[1]))
            if is_def(cv) and is_def(want[1]) and cv != want:
                self.conflicts.append(Conflict(n, want, cv, "np.place consumes its values by position: they are "
                                                            "not the selection made by the mask"))
            return cb
        if short == "putmask" and len(pos) == 3:
            cv = self.of(pos[2])
            c = self.join(self.of(pos[0]), self.of(pos[1]), n, "np.putmask mask")
            if cv != S:
                self.join(c, cv, n, "np.putmask values are taken at the masked positions")
            return self.of(pos[0])
        if short == "copyto" and len(pos) >= 2:
            c = self.join(self.of(pos[0]), self.of(pos[1]), n, "np.copyto source")
            if kws.get("where") is not None:
                self.join(c, self.of(kws["where"]), n, "np.copyto mask")
            return self.of(pos[0])
        if short in X.ALLOC_LIKE:
            return self.of(pos[0]) if pos else TOP
        if short in ("asarray", "array", "copy", "asanyarray", "ascontiguousarray", "squeeze",
                     "nan_to_num", "atleast_1d", "ravel"):
            return self.of(pos[0]) if pos else TOP
        if short == "broadcast_to" and len(pos) >= 2:
            c = self.count_of(pos[1])
            return self.join(self.of(pos[0]), c if c is not None else TOP, n, "broadcast_to target shape")
        if short in ("full", "zeros", "ones", "empty"):
            shp = pos[0] if pos else kws.get("shape")
            if shp is not None:
                c = self.count_of(shp)
                if c is not None:
                    return c
                if shp.op == "Const":
                    return ("TAB", self.g.vn(n))
                if shp.op in ("Input",):
                    return ("EV", ("count", shp.id))
                if shp.op == "Cfg":
                    return ("EV", ("count", shp.id))
            return TOP
        if short in ("logical_and.reduce", "logical_or.reduce", "logical_xor.reduce", "add.reduce", "multiply.reduce",
                     "maximum.reduce", "minimum.reduce") and pos and pos[0].op in ("Tuple", "List") and \
                (kws.get("axis") is None or (kws["axis"].op == "Const" and kws["axis"].attr == 0)):
            return self._joinall(pos[0].args, n, "arrays reduced element-wise")     # reduce over the tuple of arrays
        if short == "reshape" and len(pos) == 2 and self._column_shape([pos[1]]):
            return self.of(pos[0])
        if short == "expand_dims" and pos:
            ax = kws.get("axis") or (pos[1] if len(pos) > 1 else None)
            if ax is not None and ax.op == "Const" and isinstance(ax.attr, int) and ax.attr != 0:
                return self.of(pos[0])
        if short == "transpose" and len(pos) == 1 and not kws:
            return self._transposed(self.of(pos[0]))
        if short == "swapaxes" and len(pos) == 3 and self._first_last(pos[1], pos[2]):
            return self._transposed(self.of(pos[0]))
        if short in X.REDUCE:
            ax = kws.get("axis") or (pos[1] if len(pos) > 1 and short not in ("percentile", "quantile") else None)
            if ax is None:
                return S
            c0 = self.of(pos[0]) if pos else TOP
            if c0[0] == "ROWS" and ax.op == "Const" and isinstance(ax.attr, int):
                if ax.attr == 0:
                    return c0[1]            # over the components: one value per event
                if is_def(c0[1]):
                    self.batch_reductions.append((n, c0[1], short))
                return S
            if ax.op == "Const" and isinstance(ax.attr, int) and ax.attr != 0:
                return self.of(pos[0]) if pos else TOP     # row-wise reduction keeps the event axis
            return TOP
        if cat == "rng":
            size = kws.get("size")
            if size is None and short and short.startswith("random.") and pos:
                cand = pos[-1] if short in ("random.uniform", "random.normal") and len(pos) == 3 else None
                size = cand
            if size is not None:
                c = self.count_of(size)
                if c is not None:
                    return c
                if size.op in ("Input", "Cfg"):
                    return ("EV", ("count", size.id))
            if short == "random.rand" and len(pos) == 2:
                inner = ("EV", ("count", pos[1].id)) if pos[1].op in ("Input", "Cfg") else \
                    (self.count_of(pos[1]) or TOP)
                return ("ROWS", inner)
            return TOP
        if short in ("stack", "vstack", "array", "asarray") and pos and pos[0].op in ("Tuple", "List") and pos[0].args and \
                not any(a.op == "Starred" for a in pos[0].args):
            ax = kws.get("axis") or (pos[1] if short == "stack" and len(pos) > 1 else None)
            if ax is None or (ax.op == "Const" and ax.attr == 0):
                # k per-event vectors stacked along a new first axis: a k-by-events array (the event axis is the last)
                cs = [self.of(a) for a in pos[0].args]
                inner = self._joinall(pos[0].args, n)
                if is_def(inner) and all(c == inner or c == S for c in cs):
                    return ("ROWS", inner)
                return inner if inner == S else TOP
        if short in ("array", "asarray", "asanyarray", "ascontiguousarray", "copy") and pos and \
                pos[0].op not in ("Tuple", "List", "ListComp", "ListOf", "Const"):
            return self.of(pos[0])      # a (copy of the) array it is given: same events
        if short == "searchsorted" and len(pos) >= 2:
            return self.of(pos[1])
        if short in ("subtract.outer", "add.outer", "multiply.outer", "outer") and pos:
            return self.of(pos[0])      # rows follow the first operand
        if short in ("arange",) and pos:
            c = self.count_of(pos[0])
            if c is not None:
                return c
            if pos[0].op in ("Input", "Cfg"):
                return ("EV", ("count", pos[0].id))
            return ("TAB", self.g.vn(n))
        if short in ("linspace", "logspace", "geomspace"):
            return ("TAB", self.g.vn(n))
        if short in ("count_nonzero",):
            return S
        if short in ("finfo", "iinfo", "dtype", "result_type"):
            return S
        if q == "scipy.interpolate.interpn" and len(pos) >= 3:
            xi = pos[2]
            pts = xi.args if xi.op in ("Tuple", "List") else [xi]
            return self._joinall(pts, n, "points handed to interpn")
        if q in ("builtins.float", "builtins.int", "builtins.bool", "builtins.abs", "builtins.round"):
            return self.of(pos[0]) if pos else S
        if q in ("builtins.min", "builtins.max", "builtins.len", "builtins.sum"):
            return S
        if q.startswith("astropy.time.TimeDelta") and pos:
            return self.of(pos[0])
        if q in ("astropy.coordinates.get_body", "astropy.coordinates.AltAz", "astropy.time.Time",
                 "astropy.coordinates.get_sun", "astropy.coordinates.get_moon") or \
                cat in ("pure", "lib") and not q.startswith("numpy."):
            allargs = pos + list(kws.values())
            cs = [self.of(a) for a in allargs]
            if all(c == S for c in cs):
                return S
            if q.startswith("astropy.coordinates.") or q.startswith("astropy.time."):
                return self._joinall(allargs, n, "astropy acts element-wise on time arrays")
        return TOP
