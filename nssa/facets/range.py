"""range facet: float intervals (closed ends; openness tracked only for 'excludes zero')."""
from __future__ import annotations

import math
from typing import Dict, Optional, Tuple

from .. import extmodels as X
from ..ir import Node

INF = float("inf")


class Iv:
    __slots__ = ("lo", "hi", "lo_open", "hi_open")

    def __init__(self, lo=-INF, hi=INF, lo_open=False, hi_open=False):
        self.lo, self.hi, self.lo_open, self.hi_open = lo, hi, lo_open, hi_open

    def __repr__(self):
        return f"{'(' if self.lo_open else '['}{self.lo:g}, {self.hi:g}{')' if self.hi_open else ']'}"

    def within(self, lo, hi):
        return self.lo >= lo and self.hi <= hi

    def nonneg(self):
        return self.lo >= 0

    def positive(self):
        return self.lo > 0 or (self.lo == 0 and self.lo_open)

    def contains_zero(self):
        if self.lo > 0 or self.hi < 0:
            return False
        if self.lo == 0 and self.lo_open:
            return False
        if self.hi == 0 and self.hi_open:
            return False
        return True


TOPI = Iv()


def _mul(a: Iv, b: Iv) -> Iv:
    def m(x, y):
        if x == 0 or y == 0:
            return 0.0
        return x * y
    c = [(m(a.lo, b.lo), a.lo_open or b.lo_open), (m(a.lo, b.hi), a.lo_open or b.hi_open),
         (m(a.hi, b.lo), a.hi_open or b.lo_open), (m(a.hi, b.hi), a.hi_open or b.hi_open)]
    lo = min(c, key=lambda t: (t[0], not t[1]))
    hi = max(c, key=lambda t: (t[0], t[1]))
    # a zero factor end point that is closed gives a closed zero
    return Iv(lo[0], hi[0], lo[1] and lo[0] != 0 or (lo[0] == 0 and _zero_open(a, b)),
              hi[1] and hi[0] != 0 or (hi[0] == 0 and _zero_open(a, b)))


def _zero_open(a: Iv, b: Iv) -> bool:
    return not (a.contains_zero() or b.contains_zero())


class RangeFacet:
    def __init__(self, interp, seeds=None):
        self.I = interp
        self.memo: Dict[int, Iv] = {}
        for k, v in (seeds or {}).items():
            self.memo[k] = v

    def seed(self, n: Node, iv: Iv):
        self.memo[n.id] = iv

    def of(self, n: Node) -> Iv:
        r = self.memo.get(n.id)
        if r is None:
            self.memo[n.id] = TOPI
            try:
                r = self._of(n)
            except (OverflowError, ValueError, ZeroDivisionError):
                r = TOPI
            self.memo[n.id] = r
        return r

    def _of(self, n: Node) -> Iv:
        op = n.op
        if op == "Const":
            if isinstance(n.attr, (int, float)) and not isinstance(n.attr, bool):
                v = float(n.attr)
                return Iv(v, v)
            return TOPI
        if op == "Ext":
            if n.attr in ("numpy.pi", "math.pi"):
                return Iv(math.pi, math.pi)
            if n.attr == "astropy.constants.c.value":
                return Iv(299792458.0, 299792458.0)
            if n.attr == "numpy.inf":
                return Iv(INF, INF)
            return TOPI
        if op == "Attr":
            if n.attr == "value" and n.args[0].op == "Call" and n.args[0].args[0].op == "Ext" and \
                    n.args[0].args[0].attr == "astropy.constants.R_earth.to":
                return Iv(6000.0, 6500.0)
            if n.attr == "eps" and n.args[0].op == "Call":
                # numpy.finfo(<type>).eps: exact for the IEEE types, a bound otherwise
                fc = n.args[0]
                if fc.args and fc.args[0].op == "Ext" and fc.args[0].attr == "numpy.finfo" and len(fc.args) >= 2 and \
                        fc.args[1].op == "Ext":
                    t = fc.args[1].attr.split(".")[-1]
                    eps = {"float64": 2.220446049250313e-16, "double": 2.220446049250313e-16,
                           "float": 2.220446049250313e-16, "float_": 2.220446049250313e-16,
                           "float32": 1.1920928955078125e-07, "single": 1.1920928955078125e-07,
                           "float16": 0.0009765625, "half": 0.0009765625}.get(t)
                    if eps is not None:
                        return Iv(eps, eps)
                return Iv(0.0, 1e-3, lo_open=True)
            if n.attr in ("T",):
                return self.of(n.args[0])
            return TOPI
        if op == "Len":
            return Iv(0, INF)
        if op == "UnaryOp":
            a = self.of(n.args[0])
            if n.attr == "USub":
                return Iv(-a.hi, -a.lo, a.hi_open, a.lo_open)
            if n.attr == "UAdd":
                return a
            return TOPI
        if op == "BinOp":
            a, b = self.of(n.args[0]), self.of(n.args[1])
            k = n.attr
            if k == "Add":
                return Iv(a.lo + b.lo, a.hi + b.hi, a.lo_open or b.lo_open, a.hi_open or b.hi_open)
            if k == "Sub":
                return Iv(a.lo - b.hi, a.hi - b.lo, a.lo_open or b.hi_open, a.hi_open or b.lo_open)
            if k == "Mult":
                if n.args[0] is n.args[1] or self.I.g.same(n.args[0], n.args[1]):
                    m = max(abs(a.lo), abs(a.hi))
                    lo = 0.0 if a.contains_zero() else min(abs(a.lo), abs(a.hi)) ** 2
                    return Iv(lo, m * m if m != INF else INF)
                return _mul(a, b)
            if k == "Div":
                if b.contains_zero():
                    return TOPI
                inv = Iv(1.0 / b.hi if b.hi not in (0,) else (INF if b.lo >= 0 else -INF),
                         1.0 / b.lo if b.lo not in (0,) else (INF if b.lo >= 0 else -INF),
                         b.hi_open, b.lo_open)
                if inv.lo > inv.hi:
                    inv = Iv(inv.hi, inv.lo, inv.hi_open, inv.lo_open)
                return _mul(a, inv)
            if k == "Pow":
                if b.lo == b.hi and b.lo == int(b.lo):
                    e = int(b.lo)
                    if e == 2:
                        m = max(abs(a.lo), abs(a.hi))
                        lo = 0.0 if a.contains_zero() else min(abs(a.lo), abs(a.hi)) ** 2
                        return Iv(lo, m * m if m != INF else INF)
                    if e > 0 and e % 2 == 1:
                        return Iv(a.lo ** e if abs(a.lo) != INF else a.lo, a.hi ** e if abs(a.hi) != INF else a.hi)
                    if e > 0 and a.lo >= 0:
                        return Iv(a.lo ** e, a.hi ** e if a.hi != INF else INF)
                if a.lo > 0:
                    return Iv(0.0, INF, lo_open=True)
                return TOPI
            if k == "Mod":
                if b.lo == b.hi and b.lo > 0:
                    return Iv(0.0, b.lo)
                return TOPI
            return TOPI
        if op in ("Subscript", "NdChunk", "IterElem", "Elem"):
            return self.of(n.args[0])
        if op == "Scatter":
            if n.attr in ("via-view", "method", "del"):
                return self.of(n.args[0])
            a, v = self.of(n.args[0]), self.of(n.args[2])
            if n.args[0].op == "Call" and n.args[0].args[0].op == "Ext" and \
                    n.args[0].args[0].attr in ("numpy.empty_like", "numpy.empty"):
                return v
            return Iv(min(a.lo, v.lo), max(a.hi, v.hi))
        if op == "Phi":
            a, b = self.of(n.args[1]), self.of(n.args[2])
            return Iv(min(a.lo, b.lo), max(a.hi, b.hi), a.lo_open and b.lo_open, a.hi_open and b.hi_open)
        if op == "Call" and n.args[0].op == "Ext":
            q = n.args[0].attr
            s = X.np_short(q) or (q[5:] if q.startswith("math.") else "")
            pos = list(n.args[1:1 + n.attr[1]])
            if not pos:
                return TOPI
            a = self.of(pos[0])
            if s in ("sin", "cos"):
                if abs(a.lo) == INF or abs(a.hi) == INF or a.hi - a.lo >= 2 * math.pi:
                    return Iv(-1.0, 1.0)
                f = math.sin if s == "sin" else math.cos
                vals = [f(a.lo), f(a.hi)]
                # critical points k*pi/2 inside the interval
                k0 = math.ceil(a.lo / (math.pi / 2))
                k = k0
                while k * (math.pi / 2) <= a.hi:
                    vals.append(round(f(k * (math.pi / 2))))
                    k += 1
                lo, hi = min(vals), max(vals)
                # snap values that are exact at the canonical end points (pi/3 multiples)
                snap = lambda v: min((-1.0, -0.5, 0.0, 0.5, 1.0), key=lambda t: abs(t - v)) \
                    if min(abs(v - t) for t in (-1.0, -0.5, 0.0, 0.5, 1.0)) < 1e-12 else v
                return Iv(snap(lo), snap(hi))
            if s == "arcsin":
                return Iv(-math.pi / 2, math.pi / 2)
            if s == "arccos":
                return Iv(0.0, math.pi)
            if s == "arctan":
                return Iv(-math.pi / 2, math.pi / 2)
            if s == "arctan2":
                return Iv(-math.pi, math.pi)
            if s in ("degrees", "rad2deg"):
                f = 180.0 / math.pi
                lo, hi = a.lo * f, a.hi * f
                # exact images of the canonical end points
                for v, img in ((math.pi / 2, 90.0), (math.pi, 180.0), (2 * math.pi, 360.0)):
                    if a.lo == -v:
                        lo = -img
                    if a.hi == v:
                        hi = img
                    if a.lo == v:
                        lo = img
                    if a.hi == -v:
                        hi = -img
                return Iv(lo, hi)
            if s in ("radians", "deg2rad"):
                f = math.pi / 180.0
                return Iv(a.lo * f, a.hi * f)
            if s == "sqrt":
                return Iv(math.sqrt(max(a.lo, 0.0)), math.sqrt(a.hi) if a.hi not in (INF,) and a.hi >= 0 else INF,
                          a.lo_open and a.lo >= 0)
            if s in ("abs", "absolute", "fabs"):
                return Iv(0.0 if a.contains_zero() else min(abs(a.lo), abs(a.hi)), max(abs(a.lo), abs(a.hi)))
            if s == "log":
                if a.lo < 0:
                    return TOPI
                lo = -INF if a.lo == 0 else math.log(a.lo)
                hi = INF if a.hi == INF else (math.log(a.hi) if a.hi > 0 else -INF)
                return Iv(lo, hi, a.lo_open, a.hi_open)
            if s == "exp":
                return Iv(0.0, INF, lo_open=True)
            if s in ("float32", "float64", "asarray", "array", "copy", "squeeze", "single", "double"):
                return a
            if s in ("maximum", "fmax") and len(pos) > 1:
                b = self.of(pos[1])
                return Iv(max(a.lo, b.lo), max(a.hi, b.hi))
            if s in ("minimum", "fmin") and len(pos) > 1:
                b = self.of(pos[1])
                return Iv(min(a.lo, b.lo), min(a.hi, b.hi))
            if s == "where" and len(pos) == 3:
                b, c = self.of(pos[1]), self.of(pos[2])
                return Iv(min(b.lo, c.lo), max(b.hi, c.hi))
            if s in ("random.uniform",) and len(pos) >= 2:
                b = self.of(pos[1])
                return Iv(a.lo, b.hi)
            if s in ("random.rand", "random.random", "random.random_sample"):
                return Iv(0.0, 1.0, hi_open=True)
            if s in ("zeros_like", "zeros"):
                return Iv(0.0, 0.0)
            if s in ("ones_like", "ones"):
                return Iv(1.0, 1.0)
            if s in ("full_like", "full") and len(pos) > 1:
                return self.of(pos[1])
            return TOPI
        return TOPI
