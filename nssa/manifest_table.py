"""What MANIFEST.json claims, property by property (kept next to the rules)."""

PENDING = "rule module not built yet in this session (will be claimed or declared not applicable when it is)"

CLAIMS = {
    "C01": {
        "text": "Decides necessary structure of the diffuse estimator from the source on every path: the four "
                "variates use four different rows of u; each sampling map equals its closed form modulo algebra "
                "(incl. the four roots of the line-of-sight cubic); mcnorm is R^2 over the product of the matching "
                "density norms; the weight is cos(thTrN)/cos(thNV)/cos(thTrV); the geometry-only sum is cut only by "
                "the cone cut, carries no physics factor and is divided by the thrown count; the region predicate is "
                "(cos>=0 and beta<42). It does NOT decide the Jacobian identity, the image of the cube or convergence "
                "(values); a re-expression through trigonometric identities would be reported.",
        "technique": "value-flow graph + polynomial normal form / truth-table predicates / dependence sets",
    },
}

NOT_APPLICABLE = {
    "C06": "event-by-event agreement (10 % / 0.5 % median / 1 %) of a 600-line float32 kernel with an independent "
           "double-precision evaluation quantifies over runtime values; no sound static argument in reach bounds "
           "float32 rounding through 2(1-cos t) at t~1e-4, so static analysis cannot address it here",
}
for _p in ["C02", "C03", "C04", "C05", "C07", "C08", "C09", "C10", "C11", "C12", "C13", "C14", "C15", "C16",
           "C17", "C18", "C19", "C20"]:
    NOT_APPLICABLE[_p] = PENDING
