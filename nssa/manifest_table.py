"""What MANIFEST.json claims, property by property (kept next to the rules)."""

PENDING = "rule module not built yet in this session (will be claimed or declared not applicable when it is)"

CLAIMS = {
    "C01": {
        "text": "Decides necessary structure of the diffuse estimator from the source on every path: the four "
                "variates use four different rows of u; each sampling map equals its closed form modulo algebra "
                "(incl. the four roots of the line-of-sight cubic); mcnorm is R^2 over the product of the matching "
                "density norms; the weight is cos(thTrN)/cos(thNV)/cos(thTrV); the geometry-only sum is cut only by "
                "the cone cut, carries no physics factor and is divided by the thrown count; the region predicate is "
                "(cos>=0 and beta<42); the weight, cut and divisor obligations are evaluated again for a repeated call on "
                "the same thrown geometry (second detection channel) and after a second throw on the same object (nothing of the "
                "previous draw is kept). It does NOT decide the Jacobian identity, the image of the cube or convergence "
                "(values); a re-expression through trigonometric identities would be reported.",
        "technique": "value-flow graph + polynomial normal form / truth-table predicates / dependence sets",
    },
    "C03": {
        "text": "Decides the structure of both acceptance estimators for every input: sums divided by the number "
                "of thrown trajectories; an event is kept exactly when inside the cone / beyond the decay point and "
                "triggers >= threshold, with the dark-sky cut only under (switch and method=='Optical'), remove-only "
                "and evaluated on the kept event times; each contribution is weight x 0.826 x exit probability / "
                "spec_norm / spec_weights_sum with the documented geometric weight; compute() wires triggers, cosine, "
                "threshold, exit probability, spectrum factors and the eight header keywords of each channel from the "
                "right producer (checked on the inlined graph of compute() for both modes and both channels). The "
                "listed consequences (reorder invariance, <= 0.826 x geometric, monotone in threshold) follow from "
                "this structure. It does NOT decide numerical equality with an independent evaluation.",
        "technique": "value-flow graph of compute() + polynomial normal form of the integrand, truth-table predicates "
                     "over polynomial-keyed comparison atoms, length-class typing",
    },
    "C04": {
        "text": "Decides the structure that makes the tau-energy sampler an inverse transform usable with any mix of "
                "angles: every masked sampler call passes its per-event operands (including explicit random numbers) "
                "selected with the destination's mask; the three angle masks cover all events and are disjoint as "
                "required, with the table's first beta node / the float32-eps constant as clamps; no table look-up "
                "disables its bounds check; interpolation coordinates follow the table's axis roles; the result is "
                "z*10**log_e_nu; the sampler returns the iterator's output operand (allocated by it or supplied, never a chunk) and "
                "a supplied result array has a floating element type that does not come from the energy argument; the row-wise inversion has "
                "complementary bracket masks, paired (x0,y0)/(x1,y1) and the linear formula; the CDF table of a Taus object "
                "is the file of ITS configured table version, also when another object was constructed before it in "
                "the same process (two-construction history: state kept between constructions must be keyed on the "
                "version); run as the pipeline runs it, the tau stage writes into none of the arrays it is given. It does NOT decide "
                "F(z)=u numerically, monotonicity in u or the range of z.",
        "technique": "value-flow graph + length-class typing of masks, truth-table partition coverage, dependence "
                     "roles of interpolation coordinates, polynomial normal form",
    },
    "C05": {
        "text": "Decides: interpolation is over log10(table), every stored value is log-domain and the return is "
                "10**array; the two floors are the same float32-eps constant; the angle masks cover all events and low "
                "angles use the first beta node; the look-up keeps its bounds check for BOTH coordinates (bounds_error not "
                "switched off, decided before anything else); point order follows the table "
                "axes; history independence as an effect property - the only write to instance state in a call is the "
                "idempotent clamp X[X<=0]=k (k>0) and every other read of the table goes through it; the exit-probability "
                "table of an object is the file of ITS configured version under the two-construction history. It does NOT "
                "decide node reproduction or the convexity bound (scipy on values).",
        "technique": "value-flow graph + effect/alias analysis relative to the entry point, truth-table predicates",
    },
    "C02": {
        "text": "Decides: latitude/longitude ranges by construction (interval analysis of degrees(arcsin), "
                "degrees(arctan2) % 360); the keep predicate (cos>=0 and beta<42) by truth table; every accessor and "
                "returned column is the same-mask selection of a thrown-length attribute (length-class typing); unit "
                "discipline of all ~100 trigonometric / degree-radian call sites of throw and "
                "find_lat_long_along_traj with declared units of the public angles; scatter coverage and guard "
                "consistency of the line-of-sight stores (or, for the direct form, that the path length is clipped into "
                "[minLOS, maxLOS]). The two genuine defects it found (unguarded Cardano-branch store, uncovered "
                "partition at the faces of the cube) were repaired in /repo commit 5c07f2c; for a point at distance s along a kept trajectory, the three "
                "line-of-sight-frame components of R n + s t (s sin(theta) cos(phi), s sin(theta) sin(phi) + R cos(elev), "
                "s cos(theta) + R sin(elev)) by formula; after a second throw on the same object every accessor and the point "
                "along the trajectory describe the second throw only (history rule; memoising decorators modelled). It does NOT decide "
                "exactness of the inverse CDF, spot distance, beta from explicit vectors or the frame rotations at s>0.",
        "technique": "value-flow graph + interval, unit, length-class and truth-table predicate analyses",
    },
    "C06": {
        "text": "Decides necessary conditions of conformance that are visible in the source on every path, NOT the "
                "numeric agreement the property states: no subtractively cancelling form (1 - cos t, exp x - 1, "
                "log(1 + x), sqrt(1 + x) - 1) is evaluated in the closure of the per-event kernel, whose arithmetic is "
                "single precision (this found the defect that made the pinned tree miss the stated tolerances - "
                "2(1 - cos t) at t ~ 1e-4 in float32, photon density off by up to a factor 2 - repaired in /repo "
                "commit d711748); emergence angles below 1 degree are replaced by exactly 1 degree and nothing uses "
                "the raw angle; 0.1 km steps up to 65 km and the stepper call matches its C++ signature by role; the "
                "attenuation columns are remaining (reverse) cumulative sums and the shower age the traversed one; "
                "the contraction pattern of the Hillas angular integration; early exits return exact zeros; the formulas "
                "of the shower model (Greisen profile and age, Hillas track length / angular scale, Cherenkov threshold "
                "and angle, yield product) and the validity filter in polynomial normal form against referenced "
                "formulas; the atmosphere parameterisations (grammage, density = -1e-5 dX/dz, ozone column) cell by "
                "cell over the altitude bands; the ring limit floor(D tan theta_c) + 1 of the angular integration; the assembly "
                "of the two results (ring sized at the step of the largest particle number, density = 0.5 S / ring area x "
                "squared distance ratio, angle = photon-weighted mean + spread in degrees; viewing geometry built for the "
                "reference orbit the rescaling starts from). It does "
                "NOT decide the 10 % / 0.5 % / 1 % agreement with a double-precision evaluation or finiteness.",
        "technique": "numerical-stability lint and structural obligations on the value-flow graph of the kernel "
                     "closure (pattern rules over resolved calls, effect-free), cross-check against the C++ signature",
    },
    "C07": {
        "text": "Decides: unit and decimal-scale discipline of the kinematics (only 1e8 converts GeV to 100 PeV, only "
                "1e-3 with c in m/s gives km, gamma is energy over mass, radians into sin); non-negativity of decay "
                "length and altitude on the stated domain (interval analysis + sign of every monomial of the "
                "radicand minus R^2); the five closed forms of the statement modulo algebra; homogeneity degrees; "
                "agreement of the duplicated tau mass / lifetime constants with each other and with the reference "
                "values; in compute() the emergence angle, speed and Lorentz factor the tau and decay stages work on are the "
                "stored columns of the same events, unmodified between the stages; the decay stage modifies none of its "
                "arguments. It does NOT decide the exponential "
                "distribution or monotonicity (values).",
        "technique": "value-flow graph + unit inference, interval analysis, polynomial normal form against reference formulas",
    },
    "C08": {
        "text": "Decides: numPEs is exactly density x area x quantum efficiency; the density carries D(525 km)^2 / "
                "D(h_det)^2 with both distances from the same function on identical arguments except the altitude, h_det "
                "being the configured detector altitude, while the returned angle is independent of it; the range cut is "
                "exactly 0 <= altDec <= 20 with defaults 0 and 1.5 deg and one mask for kernel inputs and outputs; the "
                "effective angle is max(intrinsic, intrinsic x sqrt(2 ln(PE/threshold))) switched at PE/threshold > 2 "
                "with multiplier 1 below (the switch is analysed as a piecewise function over disjoint regions, "
                "whatever mix of pre-fill, masked stores and where spells it), returned as cos(radians(.)). It does NOT decide monotonicity in the signal.",
        "technique": "value-flow graph through the dask pipeline into the kernel + polynomial degrees, predicates, "
                     "dependence and unit analyses",
    },
    "C09": {
        "text": "Decides: dispatch covers every cloud_model variant; constant models ignore position; the map model "
                "depends on both coordinates, searches each degree grid with the matching coordinate converted from "
                "radians (unit + kind agreement, also that both geometry modes deliver radians), converts the map "
                "pressure only through the standard-atmosphere function; in the kernel the cloud top acts only through "
                "the early-exit comparison on the penultimate segment (exact zeros) and the strict per-segment mask "
                "stored with 0, with -inf as default, and every consumer reads the masked yield; the coordinate arrays the "
                "optical stage hands to the kernel batch select the same events as its angle / altitude / energy "
                "arrays and are the stage's own coordinates (the cloud top is looked up at the event's own "
                "location), and a repeated look-up takes nothing from an earlier event at another location unless an "
                "exact location test selects it (two-call history); shipped maps are "
                "audited (data audit). It does NOT decide cell containment at cell edges/poles.",
        "technique": "value-flow graph + must/must-not dependence with flow kinds, unit inference, effect ordering; data audit",
    },
    "C10": {
        "text": "Decides sufficient structure for schedule independence: the closure of the per-event kernel (30+ "
                "functions incl. the cloud closures and the atmosphere conversion) writes no instance state, global, "
                "captured variable or parameter and draws no random number / clock / file; the C++ stepper has no "
                "static state; EVERY kernel invocation reachable from the batch call receives the elements of the batch "
                "arguments by role and the cloud callable, and on EVERY returning path each result is the in-order "
                "collection of the kernel's return value (dask from_sequence(zip) -> map -> compute, or a sequential "
                "map/starmap/comprehension) or the guarded empty result, with no other bag combinator (a partition-wise or "
                "reducing combinator is reported: this claim covers the element-wise pipeline only); no handler can "
                "swallow a task failure. dask's own order/exception semantics and IEEE determinism are trusted, not "
                "decided.",
        "technique": "effect / alias analysis over the inlined call graph of the kernel, path-complete pipeline "
                     "analysis on the value graph, token scan of the C++ translation unit",
    },
    "C11": {
        "text": "Decides for 15 stage entry points: no argument array is modified on any path (aliasing through "
                "views, augmented assignment, out=, mutating methods); a second call on the same objects does not "
                "depend on anything the first call created (except the idempotent table clamp); no module-level object and "
                "no result handed out by a memoising decorator (lru_cache & co.) is modified in place; per-event outputs keep "
                "the input event population with no position-dependent index, no batch-wide reduction feeding a "
                "column and no mixing of populations (two allow-listed constructs with stated reasons); samplers return "
                "the iterator's output operand; an events-by-k array is never combined directly with a one-dimensional per-event "
                "value (axis alignment); no decision on one position of a per-event array or on a batch being exactly one "
                "event. Bit-for-bit equality relies on numpy's elementwise determinism "
                "(trusted).",
        "technique": "effect / alias analysis relative to each entry, two-call history analysis, length-class "
                     "(equivariance) typing",
    },
    "C12": {
        "text": "Decides: the mono-energetic column is full(N, configured log-energy) with no other dependence; every "
                "index-dependent division in the three spectrum helpers is dominated by a guard excluding index == 1; "
                "spec_norm x sum_spec_weights == 1 as a polynomial identity for every variant and guard branch; the "
                "uniform variate is on [0, 1(+1 ulp)] with one draw per event; the closed forms of the statement "
                "(general and index-1 branches) modulo algebra; the spectrum handed to the three helpers is the one "
                "configured when the sample is drawn (looked up during the call, under the history 'section replaced "
                "after construction', which the command line options perform). It does NOT decide rounding at the upper bound or "
                "distributional exactness beyond the closed form.",
        "technique": "value-flow graph with path merging + guard dominance over merge conditions, polynomial normal "
                     "form, interval analysis",
    },
    "C13": {
        "text": "Decides: mask composition thrown -> horizon -> volume by length-class typing (every mask indexes its "
                "own population; all returned columns have the final one); horizon and volume predicates incl. the "
                "min(42 deg, limb-limited) limit in radians; the dark-sky truth table over its three comparison atoms, "
                "each tied to the right body, radians and configured threshold; optical-only / remove-only / at kept "
                "event times; the time grid arange(N)/N x duration in seconds added to the event time; the three "
                "triangle relations modulo algebra. It does NOT decide astropy's transforms or ephemerides.",
        "technique": "value-flow graph + length-class typing, truth-table predicates, polynomial normal form, unit inference",
    },
    "C14": {
        "text": "Decides on the inlined graph of compute() (both geometry modes, both channels): decorator column names "
                "match return arity and every returned value is stored under its name; every stage records through the "
                "staged writer; every stored column has the population of the geometry stage's surviving selection; "
                "each channel writes exactly its four keywords and its own columns under its switch; 25 wiring pairs "
                "consumer-parameter <- producer-column; the zero-survivor early return dominates all later stages; "
                "channel isolation (no dependence on the other channel's switch/settings, first block draws no random "
                "numbers, shared columns independent of the switches, shared integral rebinds no state); all random "
                "draws are numpy.random.<fn> legacy-global draws, none in the worker closure. It does NOT decide "
                "bit-identity of the written file or behaviour over the configuration cross product.",
        "technique": "value-flow graph of compute() + effect census with path conditions, dependence sets, "
                     "length-class typing per mode, package-wide AST census of random sources",
    },
    "C17": {
        "text": "Decides ownership / pairing / ordering: the results table is mutated only in the staged writer's "
                "methods; each writer invocation mutates then rewrites the whole file exactly once (same table, "
                "output_file, format fits, overwrite=True) under write_stages (however the guard is spelled); every "
                "file-output effect below compute() is that guarded write (nothing else writes, removes or renames); in "
                "every storing-wrapper invocation the stage runs once and has returned before its values are stored, "
                "all values are stored and returned unchanged; the table owns its columns (a column added with "
                "copy=False is never modified afterwards); a stage that calls the writer itself does so as its last act "
                "(nothing in its result and no effect is produced after the writer returned); no handler swallows a "
                "stage failure (handlers whose try guards a store or a file write). The writer is identified by what it does (the class holding the table mutations). It does NOT decide "
                "atomicity of a single Table.write.",
        "technique": "effect ordering, ownership and control dependence on the inlined graph of compute()",
    },
    "C15": {
        "text": "Decides: for each of the 15 dimensional fields a mode='before' parse_units validator and a "
                "str(Quantity(x,U)[.to(V)]) serializer with the same canonical unit U and a V convertible back; the "
                "shape of parse_units (bare numbers in the target unit, strings/quantities converted); on the inlined "
                "graph of compute() no configured angle/length meets an incompatible unit (incl. astropy unit labels "
                "in the target-of-opportunity set-up); sibling agreement of month formats across validator, legacy "
                "parser and both CLI options, the 1..12 range test and the inverted-band test; unfiltered "
                "model_dump()/NssConfig(**loaded) symmetry and distinct literal ids of the unions. It does NOT decide "
                "float round trip, TOML escaping or astropy's conversion values.",
        "technique": "schema reading of the pydantic classes + value graphs of every validator / serializer / TOML "
                     "function + sibling cross-check + unit inference + truth-table predicates on raise conditions",
    },
    "C16": {
        "text": "Decides writer/reader agreement of the header schema: the header is the whole flattened model_dump() "
                "under 'HIERARCH Config' with separator ' ' (however the meta dictionary is assembled), a per-value filter on "
                "the way into the header leaves every value a card can hold (None, bool, int, str, finite float) "
                "unchanged; the flattener is evaluated on every configuration shape of the schema (nesting and field names "
                "concrete, values symbolic, one run per union variant: exactly one entry per field under its joined "
                "path, whatever the algorithm) and, when it has the generator shape, additionally decided from the effects of its generator "
                "body (every non-mapping item emitted under parent+sep+key, every mapping recursed with the same "
                "separator, nothing skipped); a missing key is detected by a presence test, not by truthiness; every key config_from_fits reads "
                "exists in the writer's key set for every union variant that can reach the read (guards on the "
                "variant id are interpreted against the schema's literal ids); every value is read from the key that "
                "is its own path (31 leaves); each spectrum variant is rebuilt completely; the final CLI write and the "
                "staged writes (found as file-output effects below the evaluated run command) use fits/overwrite=True and the "
                "reader opens HDU 1; the table compute() returns on every path, and every table written, was created by "
                "results_table.init from the very configuration object the run command loaded, overrode and passed to "
                "compute(); below compute() every change to that table is followed by a write of it on the same path "
                "(the staged file ends up holding the returned table). It does NOT decide bit-for-bit "
                "column round trip or header value fidelity (astropy FITS I/O).",
        "technique": "writer key set derived from the pydantic class definitions, reader leaves and guards from the "
                     "value-flow graph of config_from_fits, set comparison per union variant",
    },
    "C18": {
        "text": "Decides writer/reader agreement per registered format on the value graphs of the functions: data "
                "set / group / attribute names, axis k stored and read under axis name k, the numbered axis-name key "
                "(prefix and position k) in constructor and both readers, FITS HDU order (sequence normal form of the "
                "HDU list) vs the reader's index as an affine function of the position, counts tied to the data's "
                "dimensionality, create (not require) semantics, registry completeness and same file layer; that "
                "writers hand the grid's own arrays to the file layer and readers pass what they "
                "read to the constructor unchanged, slice consistency of grid_slice_interp, and the bracketing structure of "
                "the row-wise interpolation (complementary bracket masks so a query on a node is bracketed by it, paired "
                "x/y selection, two-point formula); plus an exhaustive "
                "DATA AUDIT over all ~550 000 nodes of all shipped tables (strictly increasing axes, CDF rows "
                "non-decreasing from 0 to 1 within 1e-15, exit probabilities <= 1, smallest reachable tau energy above "
                "the tau mass, axis names/order); a sub-grid taken with selectors cuts data, axes and names with the same "
                "selection and keeps an axis exactly under the test that counts the selector as given; the registered identifiers are the library's content-based ones or answer 'yes' / from the open file on every path. It does NOT decide round-trip equality for arbitrary grids, slicing "
                "values or numerical agreement of vec_1d_interp with np.interp.",
        "technique": "value-flow graphs of the sibling reader / writer functions (sequence normal form, affine index "
                     "positions, key agreement) + identity of stored arrays; data audit of shipped files (labelled, "
                     "no repo code executed)",
    },
    "C19": {
        "text": "Decides: the two shipped copies of both conversions are the same function over the same constants.py "
                "objects - identical operation graphs (what bit-for-bit agreement means statically) or, when one copy "
                "is spelled differently, algebraically equal in every cell of the mask partition (then rounding-level "
                "agreement is reported as not decided); one layer-index term for all layer "
                "tables, isothermal branch by lapse rate == 0, inclusive layer selection (boundary in the upper layer) "
                "in both directions over all layers in order (the index array read as a decision list, or as a count / "
                "searchsorted on the monotone table), no narrowing cast or rounding on the value path (the stated "
                "1e-6 needs double precision), the two layer formulas (exponential / logarithm for isothermal layers, "
                "power law for gradient layers) and the geometric <-> geopotential conversion against reference "
                "formulas cell by cell, zero pressure <-> "
                "infinite altitude with nothing left undefined in any cell; literal-table sanity "
                "(equal lengths, monotone heights/pressures, sentinel) and equality with the 1976 US Standard "
                "Atmosphere reference values; no narrowing cast or rounding and no integer-only arithmetic (reciprocal, floor "
                "division) on an argument-typed value on the value path. It does NOT decide the 1e-6 round trip or behaviour next to boundaries.",
        "technique": "structural value numbering and cell-wise polynomial comparison of the inlined, loop-unrolled "
                     "value graphs of the sibling implementations; literal-table checks against reference constants",
    },
    "C20": {
        "text": "Decides: SNR has degree 1 in the field and 1/2 in the antenna count; on every configuration path the "
                "final field of a selected event is (table field) x showerEnergy x |D(525 km)/D(h_det)| x factors "
                "containing none of the three (one power of each, constants not pinned), both distances from the same "
                "function; no memoised / module-level object is modified in place; the field is computed exactly for 0 <= altDec <= 10 and is an exact-zero "
                "product with the mask outside, all updates under that one mask; the 10 MHz bin constant agrees between "
                "SNR and noise helpers, centres are arange+df/2, inclusive band edges on the table's centre column, "
                "with a DATA AUDIT of the waveform table (one shared 5,15,... grid); order independence of the radio "
                "stage and the SNR; the field model against its formula (two Gaussians in the off-axis angle, each with "
                "its own width squared, hence finite for every fitted width); the radio stage and the SNR function modify none "
                "of their arguments (a second evaluation on the same batch sees the same fields); values stored by position (np.place) are the selection their mask makes. It does NOT decide finiteness in general or values.",
        "technique": "polynomial degrees / ratios of final values on the value-flow graph (store-to-load forwarding, "
                     "path assumptions), truth-table predicates, length-class (equivariance) typing; data audit",
    },
}

NOT_APPLICABLE = {}
for _p in ["C%02d" % k for k in range(1, 21)]:
    if _p not in CLAIMS and _p not in NOT_APPLICABLE:
        NOT_APPLICABLE[_p] = PENDING
