"""L3 builder, part 4: calls (repo functions are inlined; externals are modelled)."""
from __future__ import annotations

import ast
from typing import Dict, List, Optional

from . import extmodels as X
from .interp_core import MAX_DEPTH
from .ir import Node
from .loader import ClassInfo, FuncInfo
from .state import Frame, PathEnd, St


def is_memoised(fnode) -> bool:
    for d in getattr(fnode, "decorator_list", []):
        tgt = d.func if isinstance(d, ast.Call) else d
        name = ast.unparse(tgt).split(".")[-1]
        if name in ("lru_cache", "cache", "cached", "memoize", "memoise", "cached_property"):
            return True
    return False


def is_context_manager(fnode) -> bool:
    """decorated with contextlib.contextmanager"""
    for d in getattr(fnode, "decorator_list", []):
        if ast.unparse(d).split(".")[-1] == "contextmanager":
            return True
    return False


def is_call_of(n, q) -> bool:
    return n.op == "Call" and bool(n.args) and n.args[0].op == "Ext" and n.args[0].attr == q


def has_yield(fnode) -> bool:
    """the function is a generator: a yield of its own body (yields of nested defs, lambdas and classes are theirs)"""
    stack = list(ast.iter_child_nodes(fnode))
    while stack:
        n = stack.pop()
        if isinstance(n, (ast.Yield, ast.YieldFrom)):
            return True
        if isinstance(n, (ast.FunctionDef, ast.AsyncFunctionDef, ast.Lambda, ast.ClassDef)):
            continue
        stack.extend(ast.iter_child_nodes(n))
    return False


class LocalsAtExit(dict):
    """local variables of a logged call at its exit; .entry = the arguments as they were bound on entry"""
    entry: dict = {}


class CallMixin:

    # ------------------------------------------------------------ call expression
    def ev_Call(self, e, fr: Frame, st: St) -> Node:
        site = self.site_of(e, fr)
        fn = self.eval(e.func, fr, st)
        pos: List[Node] = []
        for a in e.args:
            if isinstance(a, ast.Starred):
                v = self.val(a.value, fr, st)
                n = self.seq_len(v)
                if v.op in ("Tuple", "List") and n is not None:
                    pos.extend(v.args)
                elif n is not None:
                    pos.extend(self.elem(v, i) for i in range(n))
                elif v.op == "ZipElem":
                    pos.extend(v.args)
                else:
                    pos.append(self.mk("Starred", (v,), None, site))
            else:
                pos.append(self.eval(a, fr, st))
        kw: Dict[str, Node] = {}
        for k in e.keywords:
            if k.arg is None:
                v = self.val(k.value, fr, st)
                if v.op == "Dict" and all(d[0] == "k" and isinstance(d[1], str) for d in v.attr):
                    for d, val in self.dict_items(v):
                        kw[d[1]] = val
                else:
                    kw["**"] = v
            else:
                kw[k.arg] = self.eval(k.value, fr, st)
        return self.call(fn, pos, kw, st, fr, site, expr=e)

    # ------------------------------------------------------------ dispatch
    def call(self, fn: Node, pos, kw, st: St, fr: Frame, site, expr=None) -> Node:
        op = fn.op
        for k_, p_ in enumerate(pos):
            if p_.op == "Starred" and p_.args[0].op == "Phi" and self._phi_known_items(p_.args[0]):
                # f(*t) with t selected by a branch: one call per alternative
                ph = p_.args[0]
                c, a, b = ph.args
                base_pc = st.pc
                s1, s2 = st.copy(), st.copy()
                s1.pc = base_pc + ((c, True),)
                s2.pc = base_pc + ((c, False),)
                outs = []
                for alt, sx in ((a, s1), (b, s2)):
                    items = self.known_items(alt) if alt.op != "Phi" else None
                    posx = list(pos[:k_]) + (list(items) if items is not None else
                                             [self.mk("Starred", (alt,), None, site)]) + list(pos[k_ + 1:])
                    try:
                        outs.append(self.call(fn, posx, kw, sx, fr, site, expr))
                    except PathEnd:
                        outs.append(None)
                v1, v2 = outs
                if v1 is None and v2 is None:
                    raise PathEnd()
                if v1 is None or v2 is None:
                    st.assign_from(s2 if v1 is None else s1)
                    return v2 if v1 is None else v1
                st.assign_from(self.merge2(c, s1, s2, base_pc))
                return self.phi(c, v1, v2, site)
        sk = kw.get("**")
        if sk is not None and sk.op == "Phi" and self._phi_kwargs(sk):
            # f(**d) with d selected by a branch: one call per alternative
            c, a, b = sk.args
            base_pc = st.pc
            s1, s2 = st.copy(), st.copy()
            s1.pc = base_pc + ((c, True),)
            s2.pc = base_pc + ((c, False),)
            outs = []
            for alt, sx in ((a, s1), (b, s2)):
                kwx = {k: v for k, v in kw.items() if k != "**"}
                if alt.op == "Dict":
                    for d, val in self.dict_items(alt):
                        kwx[d[1]] = val
                else:
                    kwx["**"] = alt
                try:
                    outs.append(self.call(fn, pos, kwx, sx, fr, site, expr))
                except PathEnd:
                    outs.append(None)
            v1, v2 = outs
            if v1 is None and v2 is None:
                raise PathEnd()
            if v1 is None or v2 is None:
                st.assign_from(s2 if v1 is None else s1)
                return v2 if v1 is None else v1
            st.assign_from(self.merge2(c, s1, s2, base_pc))
            return self.phi(c, v1, v2, site)
        if op == "Phi":
            c, a, b = fn.args
            alts = [(x, pol) for x, pol in ((a, True), (b, False))
                    if not (x.op == "Undefined" or (x.op == "Const" and x.attr is None))]
            if len(alts) == 1:
                return self.call(alts[0][0], pos, kw, st, fr, site, expr)
            base_pc = st.pc
            s1, s2 = st.copy(), st.copy()
            s1.pc = base_pc + ((c, True),)
            s2.pc = base_pc + ((c, False),)
            v1 = v2 = None
            try:
                v1 = self.call(a, pos, kw, s1, fr, site, expr)
            except PathEnd:
                pass
            try:
                v2 = self.call(b, pos, kw, s2, fr, site, expr)
            except PathEnd:
                pass
            if v1 is None and v2 is None:
                raise PathEnd()
            if v1 is None:
                st.assign_from(s2)
                return v2
            if v2 is None:
                st.assign_from(s1)
                return v1
            st.assign_from(self.merge2(c, s1, s2, base_pc))
            return self.phi(c, v1, v2, site)
        if op == "Func":
            fi = fn.attr
            if pos and fn.extra and any(d.split("(")[0].split(".")[-1] == "singledispatch"
                                        for d in fn.extra.get("ext_decorators", [])) and \
                    not any(f is fi for (_s, f) in fr.chain[-2:]):
                return self._single_dispatch(fn, pos, kw, st, fr, site)
            env = self._class_env.get(id(fi.cls), {}) if fi.cls is not None else {}
            return self.call_repo(fi, env, None, pos, kw, st, fr, site)
        if op == "Closure":
            env = fn.extra["env"]
            if fr is not None and fr.func is not None and getattr(fn.attr, "parent", None) is fr.func and \
                    not any(f is fn.attr for (_s, f) in fr.chain):
                # called from the function that defined it: free variables are cells shared with that function, so
                # the closure sees their current values (also of names bound after the def)
                env = dict(env)
                env.update({k: v for k, v in st.locals.items() if v is not None and v.op != "Undefined"})
            return self.call_repo(fn.attr, env, None, pos, kw, st, fr, site,
                                  closure_self=fn.extra.get("self_node"))
        if op == "BoundMethod":
            inst, f = fn.args
            return self.call(f, [inst] + list(pos), kw, st, fr, site, expr)
        if op == "Call" and fn.args and fn.args[0].op == "Ext" and fn.args[0].attr == "functools.partial" and \
                len(fn.args) >= 2:
            # partial(f, *a, **k)(*b, **l) == f(*a, *b, **{**k, **l})
            npos, kwn = fn.attr[1], fn.attr[2]
            inner = fn.args[1]
            ppos = list(fn.args[2:1 + npos])
            pkw = dict(zip(kwn, fn.args[1 + npos:]))
            return self.call(inner, ppos + list(pos), {**pkw, **kw}, st, fr, site, expr)
        if op == "Call" and fn.args and fn.args[0].op == "Ext" and fn.args[0].attr == "collections.namedtuple" and \
                len(fn.args) >= 3:
            # record type made by collections.namedtuple(name, fields): its instances are the tuple of their fields
            fl = fn.args[2]
            fields = None
            if fl.op in ("List", "Tuple") and all(a.op == "Const" and isinstance(a.attr, str) for a in fl.args):
                fields = [a.attr for a in fl.args]
            elif fl.op == "Const" and isinstance(fl.attr, str):
                fields = fl.attr.replace(",", " ").split()
            if fields is not None and "**" not in kw and len(pos) + len(kw) == len(fields) and \
                    not any(p.op == "Starred" for p in pos):
                vals = dict(zip(fields, pos))
                vals.update(kw)
                if set(vals) == set(fields):
                    name = fn.args[1].attr if fn.args[1].op == "Const" else "namedtuple"
                    obj = self.mk("Obj", (), (str(name), self.g.serial()), site)
                    obj.extra = {"cls": None, "ext_bases": ["builtins.tuple"], "tuple_fields": [vals[k] for k in fields],
                                 "record_fields": {k: vals[k] for k in fields}}
                    for k in fields:
                        st.heap[(obj.id, k)] = vals[k]
                    return obj
        if op == "PlotWrap":
            kw2 = {k: v for k, v in kw.items() if k != "plot"}
            if "plot" in kw:
                self.effect("plot-request", site, st, fr, node=kw["plot"])
            return self.call(fn.args[0], pos, kw2, st, fr, site, expr)
        if op == "Class":
            return self.instantiate(fn, pos, kw, st, fr, site)
        if op == "Obj":
            ci = fn.extra.get("cls")
            if ci is not None:
                m = self.find_method(ci, "__call__")
                if m is not None:
                    return self.call(self.bind_method(fn, m, m.cls, site), pos, kw, st, fr, site, expr)
                # `__call__ = other_method` in the class body
                alias = self.obj_attr(fn, "__call__", st, fr, site)
                if alias is not None and alias.op in ("BoundMethod", "Closure", "Func"):
                    return self.call(alias, pos, kw, st, fr, site, expr)
            return self.generic_call(fn, pos, kw, st, fr, site, "call-on-object")
        if op == "Ext":
            return self.call_ext(fn, pos, kw, st, fr, site)
        if op == "Attr":
            return self.method_call(fn, pos, kw, st, fr, site)
        if op == "WrapsDeco":
            return pos[0] if pos else self.unknown("wraps-noarg", site)
        if op == "Call" and fn.args and fn.args[0].op == "Ext":
            q = fn.args[0].attr
            if q == "functools.wraps":
                return pos[0] if pos else self.unknown("wraps-noarg", site)
        if op in ("Call", "MCall") and fn.extra is not None:
            # callable external object (interpolator, polynomial, registry method, ...)
            q = fn.args[0].attr if (op == "Call" and fn.args[0].op == "Ext") else None
            n = self.generic_call(fn, pos, kw, st, fr, site, "call-ext-object")
            if q == "astropy.io.registry.UnifiedReadWriteMethod":
                ca = fn.extra.get("class_attr", (None, "read"))
                kind = "io-write" if ca[1] == "write" else "io"
                self.effect(kind, site, st, fr, node=n, callee=f"{ca[0]}.{ca[1]}")
            elif q is not None and X.category(q) in ("pure", "lib"):
                pass
            elif op == "MCall" and fn.attr[0] in X.PURE_METHODS | X.VIEW_METHODS:
                pass
            else:
                self.effect("call-unknown", site, st, fr, node=n, callee=self.g.show(fn, 3))
            return n
        if op == "State" and fn.args and fn.args[0].op == "Obj" and isinstance(fn.attr, str) and \
                fn.attr in X.PURE_METHODS and (fn.args[0].extra or {}).get("cls") is not None and \
                self.ext_bases(fn.args[0].extra["cls"]):
            # a method the object inherits from a library base class (pydantic's model_dump, ...), pure by its name
            kwn = tuple(sorted(kw))
            args = [fn.args[0]] + [self.freeze(self.res(p, st), st) for p in pos] + \
                [self.freeze(self.res(kw[k], st), st) for k in kwn]
            return self.mk("MCall", args, (fn.attr, len(pos), kwn), site)
        return self.generic_call(fn, pos, kw, st, fr, site, "call-unknown")

    def generic_call(self, fn, pos, kw, st, fr, site, why) -> Node:
        args = [fn] + [self.freeze(self.res(p, st), st) for p in pos]
        kwn = tuple(sorted(kw))
        args += [self.freeze(self.res(kw[k], st), st) for k in kwn]
        n = self.mk("Call", args, (None, len(pos), kwn, self.g.serial()), site)
        n.extra = {"why": why}
        callee = fn.attr if fn.op == "Ext" else None
        if why in ("call-unknown", "call-on-object"):
            self.effect("call-unknown", site, st, fr, node=n, callee=self.g.show(fn, 3))
        return n

    # ------------------------------------------------------------ repo functions
    def call_repo(self, fi: FuncInfo, captured, self_node, pos, kw, st: St, fr: Frame, site,
                  closure_self=None, cm_hook=None) -> Node:
        if cm_hook is None and not isinstance(fi.node, ast.Lambda) and is_context_manager(fi.node):
            # @contextmanager: calling it runs nothing yet - the body runs around the with-block (ex_With)
            n = self.mk("CtxCall", (), (fi.qualname, self.g.serial()), site)
            n.extra = {"cm": {"fi": fi, "captured": captured, "self_node": self_node, "pos": list(pos), "kw": dict(kw),
                              "closure_self": closure_self}}
            return n
        if len(fr.chain) >= MAX_DEPTH or any(f is fi for (_s, f) in fr.chain[-12:] if f is not None) \
                and sum(1 for (_s, f) in fr.chain if f is fi) >= getattr(self, "recursion_limit", 2):
            self.effect("recursion-cut", site, st, fr, func=fi.qualname)
            return self.generic_call(self.func_node(fi), pos, kw, st, fr, site, "recursion")
        fnode = fi.node
        memo_key = None
        if not isinstance(fnode, ast.Lambda) and is_memoised(fnode):
            # functools.lru_cache / cache: a repeated call with equal arguments returns THE SAME object, which
            # therefore outlives the call (writes to it are writes to shared state)
            try:
                memo_key = (id(fi), tuple(self.g.vn(self.res(a, st)) for a in pos),
                            tuple(sorted((k, self.g.vn(self.res(v_, st))) for k, v_ in kw.items())))
            except Exception:
                memo_key = None
            if memo_key is not None and memo_key in self._memoised:
                return self._memoised[memo_key]
        collect = False
        if cm_hook is not None:
            pass
        elif not isinstance(fnode, ast.Lambda) and has_yield(fnode) and not (
                fi.qualname in self.analyse_generators and not any(f is fi for (_s, f) in fr.chain)):
            recursive = any((isinstance(x, ast.Call) and isinstance(x.func, ast.Name) and x.func.id == fi.name) or
                            isinstance(x, ast.YieldFrom) for x in ast.walk(fnode))     # delegation: may recurse
            if (recursive or any(f is fi for (_s, f) in fr.chain)) and not getattr(self, "collect_all_generators", False):
                n = self.generic_call(self.func_node(fi), pos, kw, st, fr, site, "generator")
                n.extra["generator"] = fi
                return n
            # a plain (non-recursive) generator is read as the sequence of the values it yields, in order
            collect = True
        self.inlined.append((fi, site))
        locals_ = self.bind_args(fi, pos, kw, st, fr, site, captured)
        if collect:
            locals_["$yield"] = self.mk("List", (), None, site)
        selfn = None
        a = fnode.args
        params = [p.arg for p in a.posonlyargs + a.args]
        if fi.cls is not None and params and self.method_kind(fi) in ("plain", "property"):
            selfn = locals_.get(params[0])
        if selfn is None:
            selfn = closure_self
        nfr = Frame(fi, fi.module, captured, fr.chain + ((site, fi),), len(st.pc), selfn, fi.cls)
        nfr.cm_hook = cm_hook
        n_entry = len(self.g.nodes)
        entry_args = dict(locals_)
        cst = St(locals_, st.heap, st.cur, st.pc)
        saved_fn = self._cur_fn
        self._cur_fn = fi
        try:
            if isinstance(fnode, ast.Lambda):
                v = self.eval(fnode.body, nfr, cst)
                st.heap, st.cur, st.pc = cst.heap, cst.cur, cst.pc
                return v
            falls = self.exec_block(fnode.body, nfr, cst)
            if falls:
                nfr.exits.append((cst, self.const(None)))
            if not nfr.exits:
                raise PathEnd()
            mst, v = self.merge_exits(nfr.exits, nfr.entry_pc_len)
            if collect:
                v = self.freeze(locals_["$yield"], mst)
                if v.op == "Loop" and len(v.args) == 3 and v.args[1].op == "List" and not v.args[1].args and \
                        v.args[2].op == "ListAppend" and v.args[2].attr is None and \
                        v.args[2].args[0].op == "LoopVar" and v.args[2].args[0].attr == v.attr and \
                        self.g.vn(v.args[2].args[1]) == self.g.vn(self.iter_elem(v.args[0], site)):
                    # `for x in it: yield x` (or `yield from it`): the generator is the sequence it walks
                    v = v.args[0]
                if v.extra is None:
                    v.extra = {}
                v.extra["generator_of"] = fi
            if fi.qualname in self.watch_locals:
                self.kept_locals.setdefault(fi.qualname, []).append((mst.locals, mst))
            if fi.qualname in self.watch_calls:
                # locals at the exit of the call (merged over its exits); .entry holds the arguments as bound on entry
                lv = LocalsAtExit(locals_)
                lv.update(mst.locals)
                lv.entry = entry_args
                self.call_log.append((fi, site, lv, v, st.pc))
            # every inlined call: (function, call chain, first node id, one past the last node id, value)
            self.call_records.append((fi, nfr.chain, n_entry, len(self.g.nodes), v, st.pc))
            st.heap, st.cur, st.pc = mst.heap, mst.cur, mst.pc
            if memo_key is not None:
                for r_ in [v] + list(self.roots(v)):
                    if r_.op not in ("Const", "Input"):
                        if r_.extra is None:
                            r_.extra = {}
                        r_.extra.setdefault("global", f"result cached by the memoising decorator of {fi.qualname}")
                self._memoised[memo_key] = v
            return v
        finally:
            self._cur_fn = saved_fn

    def bind_args(self, fi: FuncInfo, pos, kw, st, fr, site, captured) -> Dict[str, Node]:
        a = fi.node.args
        params = list(a.posonlyargs) + list(a.args)
        out: Dict[str, Node] = {}
        pos = list(pos)
        star_extra = []
        unknown_star = None
        plain = []
        for p in pos:
            if p.op == "Starred":
                unknown_star = p
            else:
                plain.append(p)
        if unknown_star is not None:
            self.effect("unknown-star-args", site, st, fr, func=fi.qualname)
        for i, p in enumerate(params):
            if i < len(plain):
                out[p.arg] = plain[i]
        extra_pos = plain[len(params):]
        kw = dict(kw)
        unknown_kw = kw.pop("**", None)
        for p in params:
            if p.arg in kw:
                if p.arg in out:
                    self.effect("arg-twice", site, st, fr, func=fi.qualname, param=p.arg)
                out[p.arg] = kw.pop(p.arg)
        # defaults
        nd = len(a.defaults)
        for j, d in enumerate(a.defaults):
            p = params[len(params) - nd + j]
            if p.arg not in out:
                out[p.arg] = self.eval_default(d, fi, captured)
        for p, d in zip(a.kwonlyargs, a.kw_defaults):
            if p.arg in kw:
                out[p.arg] = kw.pop(p.arg)
            elif d is not None:
                out[p.arg] = self.eval_default(d, fi, captured)
            else:
                out[p.arg] = self.unknown(f"missing-kwonly:{p.arg}", site)
        for p in params:
            if p.arg not in out:
                if unknown_star is not None:
                    out[p.arg] = self.mk("Elem", (unknown_star.args[0],), ("star", p.arg), site)
                elif unknown_kw is not None:
                    out[p.arg] = self.mk("Subscript", (unknown_kw, self.const(p.arg)), None, site)
                else:
                    self.effect("missing-arg", site, st, fr, func=fi.qualname, param=p.arg)
                    out[p.arg] = self.unknown(f"missing-arg:{p.arg}", site)
        if a.vararg is not None:
            items = list(extra_pos)
            if unknown_star is not None:
                items.append(unknown_star)
            out[a.vararg.arg] = self.mk("Tuple", items, None, site)
        elif extra_pos:
            self.effect("too-many-args", site, st, fr, func=fi.qualname, n=len(extra_pos))
        if a.kwarg is not None:
            keys, args = [], []
            for k, v in kw.items():
                keys.append(("k", k))
                args.append(v)
            if unknown_kw is not None:
                keys.append(("**",))
                args.append(unknown_kw)
            out[a.kwarg.arg] = self.mk("Dict", args, tuple(keys), site)
        elif kw:
            self.effect("unexpected-kwargs", site, st, fr, func=fi.qualname, names=sorted(kw))
        return out

    def eval_default(self, d, fi: FuncInfo, captured) -> Node:
        key = id(d)
        if key in self._defaults_memo:
            return self._defaults_memo[key]
        dfr = Frame(None, fi.module, captured or {}, ())
        saved = self._cur_fn
        self._cur_fn = None
        try:
            v = self.eval(d, dfr, self.module_state(fi.module))
        finally:
            self._cur_fn = saved
        if v.op in ("Dict", "List", "Set", "Call", "Obj", "ListComp", "DictComp"):
            # a default value is created once, at definition: a mutable one is state shared by all calls
            if v.extra is None:
                v.extra = {}
            v.extra.setdefault("global", f"default argument value of {fi.qualname} (created once, at definition)")
        self._defaults_memo[key] = v
        return v

    # ------------------------------------------------------------ decorators
    def decorated_function(self, fi: FuncInfo, ci: Optional[ClassInfo]) -> Node:
        key = id(fi)
        if key in self._decorated:
            return self._decorated[key]
        base = self.func_node(fi)
        self._decorated[key] = base  # guard against cycles
        decos = getattr(fi.node, "decorator_list", [])
        if decos:
            env = self._class_env.get(id(ci), {}) if ci is not None else {}
            dfr = Frame(None, fi.module, env, ())
            v = self.apply_decorators(base, decos, dfr, self.module_state(fi.module))
            self._decorated[key] = v
        return self._decorated[key]

    def apply_decorators(self, fn: Node, decos, fr: Frame, st: St) -> Node:
        v = fn
        for d in reversed(decos):
            site = self.site_of(d, fr)
            name = ast.unparse(d)
            if isinstance(d, ast.Name) and d.id in ("staticmethod", "classmethod", "property",
                                                     "cached_property", "dataclass"):
                continue
            # the plotting wrapper is summarised as transparent (its shape is an obligation
            # on utils/decorators.py checked separately)
            tgt = d.func if isinstance(d, ast.Call) else d
            tname = ast.unparse(tgt)
            if tname.split(".")[-1] in ("nss_result_plot", "ensure_plot_registry"):
                if tname.split(".")[-1] == "nss_result_plot":
                    w = self.mk("PlotWrap", (v,), None, site)
                    v = w
                continue
            dv = self.eval(d, fr, st)
            if dv.op == "Ext" or (dv.op == "Call" and dv.args and dv.args[0].op == "Ext"):
                q = dv.attr if dv.op == "Ext" else dv.args[0].attr
                if q == "functools.wraps":
                    continue
                # external decorators (pydantic validators, click commands): the function
                # itself stays callable; remember the decoration
                if v.extra is None:
                    v.extra = {}
                v.extra.setdefault("ext_decorators", []).append(name)
                v.extra.setdefault("ext_decorator_nodes", []).append(dv)     # with its arguments as evaluated
                continue
            try:
                v = self.call(dv, [v], {}, st, fr, site)
            except PathEnd:
                v = self.unknown("decorator-raises", site)
        return v

    # ------------------------------------------------------------ instantiation
    def instantiate(self, cn: Node, pos, kw, st, fr, site) -> Node:
        ci: ClassInfo = cn.attr
        ext = self.ext_bases(ci)
        obj = self.mk("Obj", (), (ci.qualname, self.g.serial()), site)
        obj.extra = {"cls": ci, "ext_bases": ext}
        if any(b.endswith("BaseModel") for b in ext):
            # pydantic model: keyword arguments become fields
            for k, v in kw.items():
                if k != "**":
                    st.heap[(obj.id, k)] = v
            obj.extra["pydantic"] = True
            obj.extra["ctor_args"] = (tuple(pos), dict(kw))
            return obj
        init = self.find_method(ci, "__init__")
        if init is not None:
            env = self._class_env.get(id(init.cls), {})
            fnode = self.decorated_function(init, init.cls)
            if fnode.op == "Func":
                self.call_repo(init, env, None, [obj] + list(pos), kw, st, fr, site)
            else:
                self.call(fnode, [obj] + list(pos), kw, st, fr, site)
        else:
            is_dc = any(ast.unparse(d).split("(")[0].endswith("dataclass") for d in ci.node.decorator_list)
            is_nt = any(b.split(".")[-1] == "NamedTuple" for b in ext)
            if is_nt:
                # typing.NamedTuple: an immutable record that is also the tuple of its fields, in declaration order
                fields = [k for k, s_ in ci.assigns.items() if isinstance(s_, ast.AnnAssign)]
                vals = {}
                for i, p in enumerate(pos):
                    if i < len(fields):
                        vals[fields[i]] = p
                for k, v in kw.items():
                    if k != "**":
                        vals[k] = v
                for k in fields:
                    if k not in vals and ci.assigns[k].value is not None:
                        vals[k] = self.eval_in_module(ci.module, ci.assigns[k].value)
                if all(k in vals for k in fields) and "**" not in kw:
                    for k in fields:
                        st.heap[(obj.id, k)] = vals[k]
                    obj.extra["tuple_fields"] = [vals[k] for k in fields]
                    obj.extra["record_fields"] = {k: vals[k] for k in fields}
                else:
                    obj.extra["ctor_args"] = (tuple(pos), dict(kw))
            elif is_dc:
                fields = []
                for c_ in reversed(self.mro(ci)):          # inherited fields first, as dataclasses order them
                    for k, s_ in c_.assigns.items():
                        if isinstance(s_, ast.AnnAssign) and k not in fields and \
                                "ClassVar" not in ast.unparse(s_.annotation):
                            fields.append(k)
                given = set()
                for i, p in enumerate(pos):
                    if i < len(fields):
                        st.heap[(obj.id, fields[i])] = p
                        given.add(fields[i])
                for k, v in kw.items():
                    if k != "**":
                        st.heap[(obj.id, k)] = v
                        given.add(k)
                for k in fields:
                    if k in given:
                        continue
                    decl = next((c_.assigns[k] for c_ in self.mro(ci) if k in c_.assigns), None)
                    dv = decl.value if decl is not None else None
                    if dv is None:
                        continue
                    if isinstance(dv, ast.Call) and ast.unparse(dv.func).split(".")[-1] == "field":
                        kwd = {k_.arg: k_.value for k_ in dv.keywords}
                        if "default" in kwd:
                            st.heap[(obj.id, k)] = self.eval_in_module(ci.module, kwd["default"])
                        elif "default_factory" in kwd:
                            fac = self.eval_in_module(ci.module, kwd["default_factory"])
                            st.heap[(obj.id, k)] = self.call(fac, [], {}, st, fr, site)
                    else:
                        st.heap[(obj.id, k)] = self.eval_in_module(ci.module, dv)
                post = self.find_method(ci, "__post_init__")
                if post is not None:
                    env = self._class_env.get(id(post.cls), {})
                    self.call_repo(post, env, None, [obj], {}, st, fr, site)
            elif pos or kw:
                obj.extra["ctor_args"] = (tuple(pos), dict(kw))
        return obj

    def _dispatch_impls(self, fi):
        """[(type expression AST, FuncInfo)] registered on the functools.singledispatch function fi, in source order:
        module-level  @<name>.register(T) def ...  /  @<name>.register def ...(x: T, ...)"""
        cache = self.__dict__.setdefault("_sd_cache", {})
        if id(fi) in cache:
            return cache[id(fi)]
        out = []
        for st_ in fi.module.tree.body:
            if not isinstance(st_, (ast.FunctionDef, ast.AsyncFunctionDef)):
                continue
            for d in st_.decorator_list:
                tgt = d.func if isinstance(d, ast.Call) else d
                if isinstance(tgt, ast.Attribute) and tgt.attr == "register" and isinstance(tgt.value, ast.Name) and \
                        tgt.value.id == fi.name:
                    texpr = None
                    if isinstance(d, ast.Call) and d.args:
                        texpr = d.args[0]
                    else:
                        a = st_.args.posonlyargs + st_.args.args
                        if a and a[0].annotation is not None:
                            texpr = a[0].annotation
                    if texpr is not None:
                        impl = FuncInfo(st_, fi.module, f"{fi.qualname}.register[{ast.unparse(texpr)}]", cls=None,
                                        parent=None)
                        out.append((texpr, impl))
        cache[id(fi)] = out
        return out

    def _single_dispatch(self, fn, pos, kw, st, fr, site):
        """functools.singledispatch: the implementation registered for the type of the first argument, else the
        generic function (registered types are taken as mutually exclusive, as union variants are)"""
        fi = fn.attr
        impls = self._dispatch_impls(fi)
        arg0 = self.res(pos[0], st)

        def types_of(texpr):
            parts = []

            def rec(e):
                if isinstance(e, ast.BinOp) and isinstance(e.op, ast.BitOr):
                    rec(e.left)
                    rec(e.right)
                elif isinstance(e, ast.Subscript) and ast.unparse(e.value).split(".")[-1] == "Union":
                    for x in (e.slice.elts if isinstance(e.slice, ast.Tuple) else [e.slice]):
                        rec(x)
                else:
                    parts.append(self.eval_in_module(fi.module, e))
            rec(texpr)
            return parts[0] if len(parts) == 1 else self.mk("Tuple", tuple(parts), None, site)

        def run(k, st_):
            if k >= len(impls):
                return self.call_repo(fi, {}, None, pos, kw, st_, fr, site)
            texpr, impl = impls[k]
            cn = self.call_ext(self.mk("Ext", (), "builtins.isinstance", site), [arg0, types_of(texpr)], {}, st_, fr, site)
            t = self.truth(cn)
            if t is True:
                return self.call_repo(impl, {}, None, pos, kw, st_, fr, site)
            if t is False:
                return run(k + 1, st_)
            base_pc = st_.pc
            s1, s2 = st_.copy(), st_.copy()
            s1.pc = base_pc + ((cn, True),)
            s2.pc = base_pc + ((cn, False),)
            v1 = v2 = None
            try:
                v1 = self.call_repo(impl, {}, None, pos, kw, s1, fr, site)
            except PathEnd:
                pass
            try:
                v2 = run(k + 1, s2)
            except PathEnd:
                pass
            if v1 is None and v2 is None:
                raise PathEnd()
            if v1 is None or v2 is None:
                st_.assign_from(s2 if v1 is None else s1)
                return v2 if v1 is None else v1
            st_.assign_from(self.merge2(cn, s1, s2, base_pc))
            return self.phi(cn, v1, v2, site)
        return run(0, st)

    def _mask_of_index(self, ix):
        """m if ix is the index array of the True entries of mask m: flatnonzero(m), nonzero(m)[0], where(m)[0]"""
        if ix.op == "Call" and ix.args and ix.args[0].op == "Ext" and ix.args[0].attr == "numpy.flatnonzero" and \
                len(ix.args) == 2:
            return ix.args[1]
        if ix.op == "Call" and ix.args and ix.args[0].op == "Ext" and ix.args[0].attr in ("numpy.nonzero", "numpy.where") \
                and len(ix.args) == 2:
            return ix.args[1]           # x[np.nonzero(m)] is x[m] (the whole tuple of index arrays)
        if ix.op == "Subscript" and ix.args[1].op == "Const" and ix.args[1].attr == 0 and ix.args[0].op == "Call" and \
                ix.args[0].args and ix.args[0].args[0].op == "Ext" and \
                ix.args[0].args[0].attr in ("numpy.nonzero", "numpy.where") and len(ix.args[0].args) == 2:
            return ix.args[0].args[1]
        return None

    def _phi_kwargs(self, n, depth=0):
        if n.op == "Dict":
            return all(d[0] == "k" and isinstance(d[1], str) for d in n.attr)
        return n.op == "Phi" and depth < 3 and self._phi_kwargs(n.args[1], depth + 1) and \
            self._phi_kwargs(n.args[2], depth + 1)

    def _sorted_const(self, seq, site, depth=0):
        """sorted(seq) for a sequence / dict whose elements (keys) are constants; distributes over a branch"""
        if seq.op == "Phi" and depth < 4:
            a = self._sorted_const(seq.args[1], site, depth + 1)
            b = self._sorted_const(seq.args[2], site, depth + 1)
            return None if a is None or b is None else self.phi(seq.args[0], a, b, site)
        if seq.op == "Const" and isinstance(seq.attr, str):
            return None
        items = self.known_items(seq)
        if items is None:
            return None
        ks = [self.const_key(x) for x in items]
        if any(k is self.NOKEY for k in ks):
            return None
        try:
            order = sorted(range(len(ks)), key=lambda i: ks[i])
        except TypeError:
            return None
        return self.mk("List", [items[i] for i in order], None, site)

    def _list_like(self, n, depth=0):
        """n is a list value: a literal, a loop-carried list (its value on loop entry is one) or appends on those"""
        if depth > 8:
            return False
        if n.op in ("List", "ListComp"):
            return True
        if n.op == "ListAppend":
            return self._list_like(n.args[0], depth + 1)
        if n.op == "LoopVar":
            init = (n.extra or {}).get("init")
            return init is not None and self._list_like(init, depth + 1)
        if n.op == "Loop":
            return self._list_like(n.args[1], depth + 1)
        return False

    def _dict_updated(self, recv, arg, site, depth=0):
        """dict value after recv.update(arg) for a dict / a literal sequence of (constant key, value) pairs / a
        branch-selected alternative of those; None when the argument's keys are not statically known"""
        if arg.op == "Phi" and depth < 4:
            a = self._dict_updated(recv, arg.args[1], site, depth + 1)
            b = self._dict_updated(recv, arg.args[2], site, depth + 1)
            if a is None or b is None:
                return None
            return self.phi(arg.args[0], a, b, site)
        new = recv
        if arg.op == "Dict":
            for kd, v in self.dict_items(arg):
                if kd[0] != "k":
                    return None
                new = self.dict_set(new, kd[1], v, site)
            return new
        if arg.op in ("List", "Tuple"):
            for pair in arg.args:
                if pair.op not in ("Tuple", "List") or len(pair.args) != 2 or pair.args[0].op != "Const":
                    return None
                new = self.dict_set(new, pair.args[0].attr, pair.args[1], site)
            return new
        if depth == 0 and recv.op == "Dict":
            # keys not statically known: same representation as {**recv, **arg}
            return self.mk("Dict", tuple(recv.args) + (arg,), tuple(recv.attr) + (("**",),), site)
        return None

    # ------------------------------------------------------------ methods on values
    def method_call(self, fn: Node, pos, kw, st, fr, site) -> Node:
        """call of an attribute of a non-repo value: x.reshape(..), d.keys(), lst.append(..)"""
        recv_v = fn.args[0]
        recv_id = (fn.extra or {}).get("recv") or self.view_base(fn) or recv_v
        name = fn.attr
        recv = self.res(recv_id, st)
        if recv.op == "Class" and name == "_make" and len(pos) == 1 and not kw and \
                any(b.split(".")[-1] == "NamedTuple" for b in self.ext_bases(recv.attr)):
            # NamedTuple._make(iterable): the record of the iterable's elements
            seq = self.res(pos[0], st)
            n_ = self.seq_len(seq)
            items = self.known_items(seq)
            if items is None and n_ is not None:
                items = [self.elem(seq, i, None, site) for i in range(n_)]
            if items is None:
                nf = len([k for k, s_ in recv.attr.assigns.items() if isinstance(s_, ast.AnnAssign)])
                items = [self.elem(seq, i, None, site) for i in range(nf)]
            return self.instantiate(recv, items, {}, st, fr, site)
        if recv.op in ("Func", "Closure") and name == "__get__" and 1 <= len(pos) <= 2 and not kw:
            # function.__get__(obj, owner): the function bound to obj (the function itself for obj None)
            o_ = self.res(pos[0], st)
            if o_.op == "Const" and o_.attr is None:
                return recv
            return self.mk("BoundMethod", (pos[0], recv), None, site)
        # dict / list models
        if recv.op == "Dict":
            if name == "keys" and not pos:
                return self.mk("DictKeys", (recv,), None, site)
            if name == "items" and not pos:
                return self.mk("DictItems", (recv,), None, site)
            if name == "values" and not pos:
                return self.mk("DictValues", (recv,), None, site)
            if name == "get" and pos and self.const_key(self.res(pos[0], st)) is not self.NOKEY:
                v = self.dict_get(recv, self.const_key(self.res(pos[0], st)))
                if v is not None:
                    return v
                if not any(k[0] in ("**", "n") for k in recv.attr):
                    return pos[1] if len(pos) > 1 else self.const(None)
            if name == "get" and len(pos) in (1, 2) and not kw and recv.attr and \
                    all(k[0] == "k" for k in recv.attr) and len(recv.attr) <= 8 and \
                    self.const_key(self.res(pos[0], st)) is self.NOKEY:
                # look-up with a key that is only known at run time in a table with known keys: the entry whose key
                # it equals, else the default
                keyn = self.res(pos[0], st)
                out = pos[1] if len(pos) > 1 else self.const(None)
                for kd, v in reversed(self.dict_items(recv)):
                    eq = self.compare("Eq", keyn, self.key_node(kd[1], site), site)
                    t = self.truth(eq)
                    if t is True:
                        out = v
                    elif t is False:
                        continue
                    else:
                        out = self.phi(eq, v, out, site)
                return out
            if name == "pop" and len(pos) in (1, 2) and not kw and \
                    self.const_key(self.res(pos[0], st)) is not self.NOKEY and \
                    not any(k[0] in ("**", "n") for k in recv.attr):
                key = self.const_key(self.res(pos[0], st))
                v = self.dict_get(recv, key)
                if v is None:
                    if len(pos) > 1:
                        return pos[1]
                    self.effect("raise", site, st, fr, node=recv, text=f"KeyError({key!r})")
                    raise PathEnd()
                keys, args = [], []
                for kd, vv in self.dict_items(recv):
                    if kd[0] == "k" and kd[1] == key:
                        continue
                    keys.append(kd)
                    args.append(vv)
                new = self.mk("Dict", args, tuple(keys), site)
                st.cur[recv_id.id] = new
                self.effect("write", site, st, fr, node=recv_id, roots=self.roots(recv_id),
                            idx=self.res(pos[0], st), value=None, how="method:pop", new=new)
                return v
            if name == "setdefault" and len(pos) in (1, 2) and not kw and \
                    self.const_key(self.res(pos[0], st)) is not self.NOKEY and \
                    not any(k[0] in ("**", "n") for k in recv.attr):
                key = self.const_key(self.res(pos[0], st))
                v = self.dict_get(recv, key)
                if v is not None:
                    return v
                dflt = pos[1] if len(pos) > 1 else self.const(None)
                new = self.dict_set(recv, key, dflt, site)
                st.cur[recv_id.id] = new
                self.effect("write", site, st, fr, node=recv_id, roots=self.roots(recv_id),
                            idx=self.res(pos[0], st), value=dflt, how="method:setdefault", new=new)
                return dflt
            upd = self._dict_updated(recv, self.res(pos[0], st), site) if name == "update" and len(pos) == 1 \
                and not kw else None
            if upd is not None:
                new = upd
                st.cur[recv_id.id] = new
                self.effect("write", site, st, fr, node=recv_id, roots=self.roots(recv_id),
                            idx=None, value=pos[0], how="method:update", new=new)
                return self.const(None)
        if recv.op in ("LoopVar", "ListAppend") and name == "append" and len(pos) == 1 and not kw and \
                self._list_like(recv):
            # list carried around an opaque loop: keep the append as a structural node
            new = self.mk("ListAppend", (recv, pos[0]), None, site)
            st.cur[recv_id.id] = new
            self.effect("write", site, st, fr, node=recv_id, roots=self.roots(recv_id),
                        idx=None, value=pos[0], how="method:append", new=new)
            return self.const(None)
        if recv.op == "List" and name == "pop" and len(pos) <= 1 and not kw and recv.args and \
                not any(a.op == "Starred" for a in recv.args):
            k = -1
            if pos:
                p0 = self.res(pos[0], st)
                k = p0.attr if p0.op == "Const" and type(p0.attr) is int else None
            if k is not None and -len(recv.args) <= k < len(recv.args):
                items = list(recv.args)
                out = items.pop(k)
                new = self.mk("List", items, None, site)
                st.cur[recv_id.id] = new
                self.effect("write", site, st, fr, node=recv_id, roots=self.roots(recv_id),
                            idx=None, value=None, how="method:pop", new=new)
                return out
        if recv.op in ("Phi", "CondList") and name == "append" and len(pos) == 1 and not kw:
            # a list that exists in several conditional versions: one conditional list, then the new item
            pairs = self.cond_pairs(recv)
            if pairs is not None:
                new = self.cond_list(pairs + [(None, pos[0])], site)
                st.cur[recv_id.id] = new
                self.effect("write", site, st, fr, node=recv_id, roots=self.roots(recv_id),
                            idx=None, value=pos[0], how="method:append", new=new)
                return self.const(None)
        if recv.op == "List" and name == "append" and len(pos) == 1:
            new = self.mk("List", recv.args + (pos[0],), None, site)
            st.cur[recv_id.id] = new
            self.effect("write", site, st, fr, node=recv_id, roots=self.roots(recv_id),
                        idx=None, value=pos[0], how="method:append", new=new)
            return self.const(None)
        if recv.op in ("List", "Tuple") and name == "index" and len(pos) == 1:
            p = self.res(pos[0], st)
            if p.op == "Const" and all(a.op == "Const" for a in recv.args):
                vals = [a.attr for a in recv.args]
                if p.attr in vals:
                    return self.const(vals.index(p.attr), site)
        if recv.op == "Const" and isinstance(recv.attr, str) and name == "format":
            pass
        if recv.op == "Const" and isinstance(recv.attr, str) and not kw:
            # pure string methods on constants fold
            P_ = [self.res(p, st) for p in pos]
            if name == "split" and len(P_) <= 1 and all(p.op == "Const" and isinstance(p.attr, (str, type(None)))
                                                        for p in P_):
                try:
                    return self.mk("List", [self.const(x, site) for x in recv.attr.split(*[p.attr for p in P_])],
                                   None, site)
                except Exception:       # noqa: BLE001
                    pass
            if name == "join" and len(P_) == 1:
                items = self.known_items(P_[0]) if P_[0].op != "Const" else None
                if items is not None and all(x.op == "Const" and isinstance(x.attr, str) for x in items):
                    return self.const(recv.attr.join(x.attr for x in items), site)
            if name in ("lower", "upper", "strip", "lstrip", "rstrip", "title", "capitalize", "casefold") and \
                    all(p.op == "Const" and isinstance(p.attr, str) for p in P_) and len(P_) <= 1:
                try:
                    return self.const(getattr(recv.attr, name)(*[p.attr for p in P_]), site)
                except Exception:       # noqa: BLE001
                    pass
            if name in ("startswith", "endswith") and len(P_) == 1 and P_[0].op == "Const" and \
                    isinstance(P_[0].attr, (str, tuple)):
                return self.const(getattr(recv.attr, name)(P_[0].attr), site)
        if recv.op == "NdIter" and name in ("__enter__", "close"):
            return recv
        # dask bag pipeline
        if recv.op == "Bag" and name == "map" and pos:
            f = pos[0]
            elemv = self.iter_elem(recv.args[0], site)
            self.effect("dask-map", site, st, fr, node=recv, func=f)
            r = self.call(f, [elemv] + list(pos[1:]), kw, st, fr, site)
            n = self.mk("BagMap", (recv, self.snapshot(r, st)), None, site)
            return n
        if recv.op == "Bag" and name == "starmap" and pos:
            # bag.starmap(f, **kw): f(*element, **kw) for every element, one result per element, in order
            f = pos[0]
            elemv = self.iter_elem(recv.args[0], site)
            self.effect("dask-map", site, st, fr, node=recv, func=f)
            n_el = self.seq_len(elemv)
            if n_el is not None:
                args_ = [self.elem(elemv, i, None, site) for i in range(n_el)]
            else:
                args_ = [self.mk("Starred", (elemv,), None, site)]
            r = self.call(f, args_ + list(pos[1:]), kw, st, fr, site)
            return self.mk("BagMap", (recv, self.snapshot(r, st)), None, site)
        if recv.op == "Bag" and name == "map_partitions" and pos:
            # bag.map_partitions(f, *a, **k): f(partition, *a, **k) per partition - a run of consecutive elements of
            # unknown length - and the results of the partitions concatenated.  The combinator is recorded (it is not
            # element-wise); f is evaluated once on a symbolic partition so that what it does per element is visible.
            eff = self.effect("dask-combinator", site, st, fr, node=recv, name=name)
            elemv = self.iter_elem(recv.args[0], site)
            part = self.mk("ListOf", (elemv,), None, site)
            part.extra = {"partition_of": recv}
            try:
                r = self.snapshot(self.call(pos[0], [part] + list(pos[1:]), kw, st, fr, site), st)
            except PathEnd:
                r = None
            n = self.mk("BagOther", (recv,), name, site)
            if r is not None:
                per = r.args[0] if r.op == "ListOf" else (r.args[0] if r.op in ("List", "Tuple") and len(r.args) == 1
                                                          else None)
                n.extra = {"partition_result": r, "element": per}
                # element-wise: the partition's result is one value per element, each computed from its own element -
                # nothing looks at the partition as a whole (its length, its first element, a position)
                from .ir import walk as _walk
                eff.data["elementwise"] = r.op == "ListOf" and not any(x is part for x in _walk([r.args[0]]))
                eff.data["func"] = pos[0]
            return n
        if recv.op in ("Bag", "BagMap") and name not in ("map", "compute", "starmap"):
            self.effect("dask-combinator", site, st, fr, node=recv, name=name)
            return self.mk("BagOther", (recv,), name, site)
        if recv.op == "BagOther" and name == "compute" and recv.extra and recv.extra.get("element") is not None:
            self.effect("dask-compute", site, st, fr, node=recv, kwargs=sorted(kw))
            lo = self.mk("ListOf", (recv.extra["element"],), None, site)
            # one result per element, in order (the partition function maps its elements one by one): the same shape as
            # an element-wise map; the combinator itself stays on record for the rules that care about it
            lo.extra = {"bag": self.mk("BagMap", (recv.args[0], recv.extra["element"]), None, site),
                        "partitionwise": True}
            return lo
        if recv.op == "BagMap" and name == "compute":
            self.effect("dask-compute", site, st, fr, node=recv, kwargs=sorted(kw))
            lo = self.mk("ListOf", (recv.args[1],), None, site)
            lo.extra = {"bag": recv}
            return lo
        if name == "searchsorted" and pos and "sorter" not in kw and self._is_numpy_array(recv):
            # a.searchsorted(v, side) is numpy.searchsorted(a, v, side): one spelling for the rules
            return self.call_ext(self.ext("numpy.searchsorted", site), [recv] + list(pos), kw, st, fr, site)
        lib_init = False
        if recv.op == "Super" and name == "__init__":
            inst = recv.args[0]
            if inst.op == "Obj" and inst.extra.get("cls") is not None and \
                    all(X.category(b) in ("pure", "lib") for b in self.ext_bases(inst.extra["cls"])):
                # constructor of a library base class (astropy's NDData, ...): fills the object's own fields - which
                # read back as unknown state of that object - and does nothing else
                lib_init = True
        args = [recv] + [self.freeze(self.res(p, st), st) for p in pos]
        kwn = tuple(sorted(k for k in kw if k != "**"))
        args += [self.freeze(self.res(kw[k], st), st) for k in kwn]
        n = self.mk("MCall", args, (name, len(pos), kwn), site)
        n.extra = {}
        if name in X.VIEW_METHODS:
            n.extra["view_of"] = recv_id
        roots = self.roots(recv_id)
        if name in X.MUTATING_METHODS:
            st.cur[recv_id.id] = self.mk("Scatter", (recv, self.const(("method", name)), n),
                                         "method", site)
            self.effect("write", site, st, fr, node=recv_id, roots=roots, idx=None, value=n,
                        how="method:" + name)
            self.effect("mcall-mutate", site, st, fr, node=n, name=name, roots=roots, recv=recv_id)
        elif name in X.IO_WRITE_METHODS:
            self.effect("io-write", site, st, fr, node=n, name=name, recv=recv_id,
                        callee="." + name)
        elif name in X.IO_READ_METHODS:
            self.effect("io", site, st, fr, node=n, name=name, recv=recv_id, callee="." + name)
        elif name in X.PURE_METHODS or name in X.VIEW_METHODS or lib_init:
            pass
        else:
            self.effect("mcall-unknown", site, st, fr, node=n, name=name, recv=recv_id)
        return n

    # ------------------------------------------------------------ externals
    def call_ext(self, fn: Node, pos, kw, st, fr, site) -> Node:
        q = fn.attr
        short = X.np_short(q)
        if short is not None and "out" in kw and "where" not in kw and \
                (short in X.NP_BINOPS or short in X.NP_UNOPS or short in X.NP_CMPS or short in X.UFUNC1 or
                 short in X.UFUNC2) and self.res(kw["out"], st).op not in ("Const", "Tuple"):
            # ufunc(x, ..., out=o): o is overwritten with the value of the plain call (same canonical form)
            tgt = kw["out"]
            val = self.call_ext(fn, pos, {k: v for k, v in kw.items() if k != "out"}, st, fr, site)
            self.effect("write", site, st, fr, node=tgt, roots=self.roots(tgt), idx=None, value=val, how="out=")
            st.cur[tgt.id] = val
            self._propagate_view_write(tgt, val, st, site)
            return tgt
        P = [self.res(p, st) for p in pos]
        nkw = {k: v for k, v in kw.items() if k not in ("dtype",)}
        dt = kw.get("dtype")
        extra = {"dtype": self.res(dt, st)} if dt is not None else None
        # ---- builtins evaluated by the interpreter
        if q == "builtins.issubclass" and len(P) == 2 and not kw:
            a_, b_ = P
            if a_.op == "Class" and b_.op == "Class":
                return self.const(self.is_subclass(a_.attr, b_.attr), site)
            if a_.op == "Class" and b_.op == "Ext":
                return self.const(any(str(x) == b_.attr or str(x).split(".")[-1] == b_.attr.split(".")[-1]
                                      for x in self.ext_bases(a_.attr)), site)
            if a_.op == "Ext" and b_.op in ("Class", "Ext") and a_.attr.startswith(("builtins.", "types.")) and \
                    a_.attr != b_.attr if b_.op == "Ext" else a_.op == "Ext" and a_.attr.startswith(("builtins.", "types.")):
                return self.const(False, site)
        if q in ("typing.get_args", "typing_extensions.get_args") and len(P) == 1 and not kw:
            if P[0].op == "PydAnnot":
                return self.mk("Tuple", tuple(P[0].extra["members"]), None, site)
            if P[0].op in ("Class",) or (P[0].op == "Ext" and P[0].attr.startswith("builtins.")):
                return self.mk("Tuple", (), None, site)        # a plain class has no type arguments
        if q == "types.MethodType" and len(P) == 2 and not kw:
            return self.mk("BoundMethod", (pos[1], pos[0]), None, site)      # MethodType(f, obj)(*a) is f(obj, *a)
        if q == "builtins.isinstance" and len(P) == 2:
            def none_type(t_):
                return (is_call_of(t_, "builtins.type") and len(t_.args) == 2 and t_.args[1].op == "Const" and
                        t_.args[1].attr is None) or (t_.op == "Ext" and t_.attr in ("types.NoneType",))
            if none_type(P[1]):
                # isinstance(x, type(None)) is `x is None`
                return self.compare("Is", P[0], self.const(None, site), site)
            if P[1].op == "Tuple" and any(none_type(t_) for t_ in P[1].args):
                rest = tuple(t_ for t_ in P[1].args if not none_type(t_))
                isn = self.compare("Is", P[0], self.const(None, site), site)
                if not rest:
                    return isn
                other = self.call_ext(fn, [pos[0], self.mk("Tuple", rest, None, site)], {}, st, fr, site)
                return self.mk("BoolOp", (isn, other), "Or", site)
            r = self.fold_isinstance(P[0], P[1])
            if r is not None:
                return self.const(r, site)
            return self.mk("IsInstance", (P[0], P[1]), None, site)
        if q == "builtins.len" and len(P) == 1:
            n = self.seq_len(P[0])
            if n is not None:
                return self.const(n, site)
            k = self.static_len(P[0])
            if k is not None:
                c = self.const(k, site)
                return c
            return self.mk("Len", (P[0],), None, site)
        if q == "builtins.callable" and len(P) == 1:
            if P[0].op in ("Func", "Closure", "BoundMethod", "Class", "Ext", "PlotWrap"):
                return self.const(True, site)
            if P[0].op in ("Const", "Tuple", "List", "Dict", "Cfg"):
                return self.const(False, site)
        if q == "builtins.zip":
            if len(P) == 1 and P[0].op == "Starred":
                inner = P[0].args[0]
                if inner.op == "ListOf":
                    el = inner.args[0]
                    n = self.seq_len(el)
                    n2 = n if n is not None else self._phi_tuple_len(el)
                    if n2 is not None:
                        cols = []
                        for i in range(n2):
                            c = self.mk("ListOf", (self.elem(el, i),), "col", site)
                            c.extra = dict(inner.extra or {})
                            cols.append(c)
                        return self.mk("Tuple", cols, None, site)
                return self.mk("ZipStar", (inner,), None, site)
            return self.mk("Zip", P, None, site)
        if q == "builtins.next" and len(P) == 1 and not kw and P[0].op not in ("List", "Tuple", "Iter"):
            # next(it) without a default on an iterator that may be exhausted (a filtered generator, ...): StopIteration
            # may leave the calling function
            self.effect("may-raise", site, st, fr, node=P[0], text="StopIteration")
        if q == "builtins.next" and len(P) in (1, 2) and not kw and P[0].op == "CondList":
            # first element whose filter holds, else the default
            pairs = list(zip(P[0].args[0::2], P[0].args[1::2]))
            if len(P) == 2:
                out = P[1]
            else:
                out = self.unknown("next-exhausted", site)
            for cn, el in reversed(pairs):
                t = self.truth(cn)
                if t is True:
                    out = el
                elif t is False:
                    continue
                else:
                    out = self.phi(cn, el, out, site)
            return out
        if q == "builtins.next" and len(P) in (1, 2) and not kw and P[0].op in ("List", "Tuple"):
            if P[0].args:
                return P[0].args[0]
            if len(P) == 2:
                return P[1]
        if q in ("itertools.starmap", "builtins.map") and len(P) >= 2 and not kw:
            # sequential element-wise map: one call of f per element, results kept in input order
            f = P[0]
            args = None
            # over sequences written out in the source (a tuple of (operator, helper) pairs, ...): the calls themselves
            cols_ = [self.known_items(self.res(p_, st), 16) if p_.op != "Const" else None for p_ in P[1:]]
            if all(c_ is not None for c_ in cols_) and f.op in ("Func", "Closure", "BoundMethod", "Ext"):
                rows_ = list(zip(*cols_))
                if q.endswith("starmap"):
                    rows_ = [self.known_items(r_[0], 16) if len(r_) == 1 else None for r_ in rows_]
                if rows_ and all(r_ is not None for r_ in rows_):
                    return self.mk("List", tuple(self.snapshot(self.call(f, list(r_), {}, st, fr, site), st)
                                                 for r_ in rows_), None, site)
            if q.endswith("starmap"):
                if len(P) == 2:
                    ev = self.iter_elem(P[1], site)
                    if ev.op == "Tuple":
                        args = list(ev.args)
            else:
                args = [self.iter_elem(p, site) for p in P[1:]]
            if args is not None:
                self.effect("seq-map", site, st, fr, node=P[1], func=f)
                r = self.call(f, args, {}, st, fr, site)
                lo = self.mk("ListOf", (self.snapshot(r, st),), None, site)
                lo.extra = {"seq": P[1] if len(P) == 2 else self.mk("Zip", P[1:], None, site)}
                return lo
        if q == "functools.reduce" and len(P) in (2, 3) and not kw:
            # a left fold over a sequence of known items is the chain of calls f(f(f(x0, x1), x2), ...)
            seq = self.res(P[1], st)
            items = self.known_items(seq) if seq.op != "Const" else None
            if items is not None and (items or len(P) == 3):
                acc = P[2] if len(P) == 3 else items[0]
                for x in (items if len(P) == 3 else items[1:]):
                    acc = self.call(P[0], [acc, x], {}, st, fr, site)
                return acc
        if q == "builtins.enumerate" and len(P) in (1, 2) and set(kw) <= {"start"} and not (len(P) == 2 and kw):
            start = P[1] if len(P) == 2 else kw.get("start")
            start = self.res(start, st) if start is not None else None
            if start is None or (start.op == "Const" and type(start.attr) is int):
                return self.mk("Enumerate", (P[0],), (start.attr if start is not None else 0) or None, site)
        if q == "builtins.range":
            return self.mk("Range", P, None, site)
        if q == "builtins.iter" and len(P) == 1 and not kw:
            items = self.known_items(P[0]) if P[0].op != "Const" else None
            if items is not None:
                # an iterator over a known sequence: an object with a position (consumed by for / next)
                itn = self.mk("Iter", (P[0],), self.g.serial(), site)
                itn.extra = {"items": list(items)}
                st.heap[(itn.id, "$pos")] = self.const(0)
                return itn
        if q == "builtins.next" and len(P) in (1, 2) and not kw and P[0].op == "Iter":
            posn = st.heap.get((P[0].id, "$pos"))
            if posn is not None and posn.op == "Const":
                items = P[0].extra["items"]
                if posn.attr < len(items):
                    st.heap[(P[0].id, "$pos")] = self.const(posn.attr + 1)
                    return items[posn.attr]
                if len(P) == 2:
                    return P[1]
                self.effect("raise", site, st, fr, node=P[0], text="StopIteration")
                raise PathEnd()
        if q in ("builtins.any", "builtins.all") and len(P) == 1 and not kw:
            items = self.known_items(P[0]) if P[0].op != "Const" else None
            if items is not None:
                ts = [self.truth(x) for x in items]
                if q.endswith("any"):
                    if any(t is True for t in ts):
                        return self.const(True, site)
                    rest = [x for x, t in zip(items, ts) if t is None]
                    if not rest:
                        return self.const(False, site)
                    return rest[0] if len(rest) == 1 else self.mk("BoolOp", tuple(rest), "Or", site)
                if any(t is False for t in ts):
                    return self.const(False, site)
                rest = [x for x, t in zip(items, ts) if t is None]
                if not rest:
                    return self.const(True, site)
                return rest[0] if len(rest) == 1 else self.mk("BoolOp", tuple(rest), "And", site)
        if q == "numpy.select" and len(P) in (2, 3) and set(kw) <= {"default"}:
            # select([c1, c2, ..], [v1, v2, ..], d): the first condition that holds decides - nested where.  The two
            # sequences may be anything with known items (a literal, a constant range, a reversed list, ...)
            cs_ = self.known_items(P[0]) if P[0].op != "Const" else None
            vs_ = self.known_items(P[1]) if P[1].op != "Const" else None
            if cs_ is not None and vs_ is not None and len(cs_) == len(vs_) and cs_:
                dflt = P[2] if len(P) == 3 else kw.get("default", self.const(0, site))
                out = self.res(dflt, st)
                w = self.ext("numpy.where", site)
                for c_, v_ in reversed(list(zip(cs_, vs_))):
                    out = self.call_ext(w, [c_, v_, out], {}, st, fr, site)
                return out
        if q == "numpy.einsum" and len(P) >= 2 and not kw and P[0].op == "Const" and isinstance(P[0].attr, str):
            sub = P[0].attr.replace(" ", "")
            none, full = self.const(None, site), self.mk("Slice", (self.const(None),) * 3, None, site)
            if sub in ("ij,i->ij", "ij,j->ij") and len(P) == 3:
                ix = self.mk("Tuple", (full, none) if sub == "ij,i->ij" else (none, full), None, site)
                return self.binop("Mult", P[1], self.mk("Subscript", (P[2], ix), None, site), site)
            if sub in ("i,ij->ij", "j,ij->ij") and len(P) == 3:
                ix = self.mk("Tuple", (full, none) if sub == "i,ij->ij" else (none, full), None, site)
                return self.binop("Mult", self.mk("Subscript", (P[1], ix), None, site), P[2], site)
            if sub in ("i,i->i", "ij,ij->ij") and len(P) == 3:
                return self.binop("Mult", P[1], P[2], site)
            if sub in ("ij->i", "ij->j") and len(P) == 2:
                return self.call_ext(self.ext("numpy.sum", site), [P[1]],
                                     {"axis": self.const(1 if sub == "ij->i" else 0, site)}, st, fr, site)
        if q == "numpy.piecewise" and len(P) == 3 and not kw:
            # piecewise(x, [c1, c2, ..], [f1, f2, .. [, default]]):  y = zeros_like(x); y[ck] = fk(x[ck]) in turn (a
            # funclist entry that is not callable is stored as it is); an extra entry applies where no condition holds
            cs_ = self.known_items(P[1]) if P[1].op != "Const" else None
            fs_ = self.known_items(P[2]) if P[2].op != "Const" else None
            if cs_ is not None and fs_ is not None and cs_ and len(fs_) in (len(cs_), len(cs_) + 1):
                if len(fs_) == len(cs_) + 1:
                    none_ = self.unop("Invert", cs_[0] if len(cs_) == 1 else
                                      self.call_ext(self.ext("numpy.logical_or.reduce", site),
                                                    [self.mk("List", tuple(cs_), None, site)], {}, st, fr, site), site, None)
                    cs_ = list(cs_) + [none_]
                out = self.call_ext(self.ext("numpy.zeros_like", site), [pos[0]], {}, st, fr, site)
                for c_, f_ in zip(cs_, fs_):
                    fr_ = self.res(f_, st)
                    if fr_.op in ("Func", "Closure", "BoundMethod", "Ext", "Partial"):
                        v_ = self.call(fr_, [self.subscript(pos[0], c_, st, fr, site)], {}, st, fr, site)
                    else:
                        v_ = f_
                    self.write(out, c_, self.snapshot(v_, st), st, fr, site)
                return out
        if q == "numpy.take" and ((len(P) == 2 and set(kw) == {"axis"}) or (len(P) == 3 and not kw)):
            ax_ = self.res(kw["axis"] if kw else P[2], st)
            if ax_.op == "Const" and ax_.attr == 0 and type(ax_.attr) is int:
                return self.subscript(pos[0], P[1], st, fr, site)      # take(a, idx, axis=0) is a[idx]
        if q == "numpy.take" and len(P) == 2 and not kw and self._mask_of_index(P[1]) is not None:
            # take(x, flatnonzero(m)) is x[m] (both flatten alike)
            return self.subscript(pos[0], self._mask_of_index(P[1]), st, fr, site)
        if q == "numpy.put" and len(P) == 3 and not kw and self._mask_of_index(P[1]) is not None:
            self.write(pos[0], self._mask_of_index(P[1]), self.snapshot(P[2], st), st, fr, site)
            return self.const(None, site)
        if q in ("builtins.tuple", "builtins.list") and len(P) <= 1:
            if not P:
                return self.mk("Tuple" if q.endswith("tuple") else "List", (), None, site)
            if P[0].op in ("Tuple", "List") and not any(a.op == "Starred" for a in P[0].args):
                return self.mk("Tuple" if q.endswith("tuple") else "List", P[0].args, None, site)
            if P[0].op in ("ListComp", "ListOf"):
                return P[0]
            if P[0].op == "Obj" and P[0].extra and P[0].extra.get("tuple_fields") is not None and not kw:
                # tuple(record): the fields of a named tuple, in order
                return self.mk("Tuple" if q.endswith("tuple") else "List", tuple(P[0].extra["tuple_fields"]), None, site)
            if P[0].op in ("Zip", "Enumerate", "DictValues") and not kw and self._dict_view_items(P[0]) is not None:
                return self.mk("Tuple" if q.endswith("tuple") else "List", tuple(self._dict_view_items(P[0])), None, site)
            if P[0].op in ("Dict", "DictKeys", "DictItems", "Const") and not kw:
                items = self.known_items(P[0]) if not (P[0].op == "Const" and isinstance(P[0].attr, str)) else None
                if items is not None:
                    return self.mk("Tuple" if q.endswith("tuple") else "List", items, None, site)
        if q == "builtins.sorted" and len(P) == 1 and not kw:
            srt = self._sorted_const(P[0], site)
            if srt is not None:
                return srt
        if q == "collections.ChainMap" and P and not kw:
            return self.mk("ChainMap", tuple(P), None, site)
        if q == "builtins.dict" and len(P) == 1 and not kw and P[0].op == "ChainMap":
            # dict(ChainMap(a, b, ...)): the maps from the last to the first, each overriding values of the ones before it
            maps = [self.res(m_, st) for m_ in P[0].args]
            out = maps[-1]
            for m_ in reversed(maps[:-1]):
                out = self.binop("BitOr", out, m_, site)
            return out
        if q == "functools.update_wrapper" and P:
            return P[0]             # the wrapper itself (only its metadata attributes are updated)
        if q == "builtins.dict" and not P:
            return self.mk("Dict", [kw[k] for k in kw], tuple(("k", k) for k in kw), site)
        if q == "builtins.dict" and len(P) == 1 and P[0].op == "Dict" and not kw:
            return self.mk("Dict", P[0].args, P[0].attr, site)
        if q == "builtins.dict" and len(P) == 1 and not kw and P[0].op in ("List", "Tuple", "DictItems", "Zip", "Enumerate"):
            pairs = self.known_items(P[0], limit=400)
            if pairs is not None and all(p_.op in ("Tuple", "List") and len(p_.args) == 2 and
                                         self.const_key(p_.args[0]) is not self.NOKEY for p_ in pairs):
                d_ = self.mk("Dict", (), (), site)
                for p_ in pairs:
                    d_ = self.dict_set(d_, self.const_key(p_.args[0]), p_.args[1], site)
                return d_
        if q in ("builtins.int", "builtins.float", "builtins.str", "builtins.bool") and len(P) == 1 \
                and P[0].op == "Const" and not kw:
            try:
                f = {"int": int, "float": float, "str": str, "bool": bool}[q[9:]]
                return self.const(f(P[0].attr), site)
            except Exception:
                pass
        if q == "builtins.super":
            if fr.self_node is not None and fr.cls is not None:
                n = self.mk("Super", (fr.self_node,), None, site)
                n.extra = {"after": fr.cls}
                return n
        if q == "builtins.print":
            self.effect("print", site, st, fr)
            return self.const(None, site)
        if q == "builtins.getattr" and len(P) >= 2 and P[1].op == "Const":
            return self.load_attr(pos[0], P[1].attr, st, fr, site)
        if q == "functools.wraps":
            return self.mk("WrapsDeco", tuple(P), None, site)
        # ---- numpy canonicalisation
        if short is not None and not nkw:
            if short in X.NP_BINOPS and len(P) == 2:
                return self.binop(X.NP_BINOPS[short], P[0], P[1], site, extra)
            if short in X.NP_UNOPS and len(P) == 1:
                return self.unop(X.NP_UNOPS[short], P[0], site, extra)
            if short in X.NP_CMPS and len(P) == 2:
                return self.compare(X.NP_CMPS[short], P[0], P[1], site)
        if q.startswith("operator.") and not nkw:
            # the operator module's functions are the operators themselves
            OPB = {"add": "Add", "sub": "Sub", "mul": "Mult", "truediv": "Div", "pow": "Pow", "mod": "Mod",
                   "floordiv": "FloorDiv", "and_": "BitAnd", "or_": "BitOr", "xor": "BitXor", "matmul": "MatMult"}
            OPC = {"lt": "Lt", "le": "LtE", "gt": "Gt", "ge": "GtE", "eq": "Eq", "ne": "NotEq", "is_": "Is",
                   "is_not": "IsNot", "contains": None}
            OPU = {"neg": "USub", "pos": "UAdd", "invert": "Invert", "inv": "Invert", "not_": "Not"}
            name_ = q.split(".", 1)[1].strip("_") if q.split(".", 1)[1] not in ("and_", "or_", "is_", "not_") \
                else q.split(".", 1)[1]
            if name_ == "getitem" and len(P) == 2:
                return self.subscript(pos[0], P[1], st, fr, site)
            if name_ in OPB and len(P) == 2:
                return self.binop(OPB[name_], P[0], P[1], site, extra)
            if name_ in OPC and OPC[name_] and len(P) == 2:
                return self.compare(OPC[name_], P[0], P[1], site)
            if name_ in OPU and len(P) == 1:
                return self.unop(OPU[name_], P[0], site, extra)
        if q == "numpy.nditer" and P:
            return self.make_nditer(P, kw, st, fr, site)
        # ---- dask pipeline
        if q == "dask.bag.from_sequence" and P:
            self.effect("dask-from-sequence", site, st, fr, node=P[0], kwargs=sorted(kw))
            return self.mk("Bag", (P[0],), tuple(sorted(kw)), site)
        # ---- generic
        cat = X.category(q)
        args = [fn] + [self.freeze(p, st) for p in P]
        kwn = tuple(sorted(k for k in kw if k != "**"))
        args += [self.freeze(self.res(kw[k], st), st) for k in kwn]
        serial = self.g.serial() if cat in ("rng", "rng-ctor", "clock-env", "io", "io-write", "unknown",
                                            "lib", "ui", "dask", "print", "warn") else None
        n = self.mk("Call", args, (q, len(P), kwn, serial), site)
        n.extra = {"cat": cat}
        if "**" in kw:
            n.extra["starkw"] = self.res(kw["**"], st)
        if cat == "view" and pos:
            n.extra["view_of"] = pos[0]
        if "out" in kw and "where" in kw and self.res(kw["out"], st).op not in ("Const", "Tuple"):
            # ufunc(x, out=o, where=m): o keeps its previous contents where m is False
            tgt = kw["out"]
            keep = [k for k in kwn if k not in ("out", "where")]
            pargs = [fn] + [self.freeze(p, st) for p in P] + [self.freeze(self.res(kw[k], st), st) for k in keep]
            pure = self.mk("Call", pargs, (q, len(P), tuple(keep), serial), site)
            pure.extra = {"cat": cat}
            # exactly  o[m] = ufunc(x)[m]  (the operands broadcast against the output)
            wh = self.res(kw["where"], st)
            if tgt.op == "Attr" and tgt.attr == "T" and tgt.args:
                # out=B.T with a per-row mask of B: the mask runs along the last axis of B.T, i.e. over the rows of B -
                #   ufunc(B.T, c, out=B.T, where=m)   is   B[m] = ufunc(B, c)[m]   when the other operands are scalars
                base_ = tgt.args[0]
                ops_ = [self.res(p, st) for p in P]
                def is_bt(o_):
                    return o_.op == "Attr" and o_.attr == "T" and o_.args and self.g.vn(self.res(o_.args[0], st)) == \
                        self.g.vn(self.res(base_, st))
                if all(is_bt(o_) or o_.op == "Const" for o_ in ops_) and any(is_bt(o_) for o_ in ops_):
                    bargs = [fn] + [self.freeze(self.res(base_, st), st) if is_bt(o_) else o_ for o_ in ops_] + \
                        [self.freeze(self.res(kw[k], st), st) for k in keep]
                    pure_b = self.mk("Call", bargs, (q, len(P), tuple(keep), serial), site)
                    pure_b.extra = {"cat": cat}
                    self.write(base_, wh, self.mk("Subscript", (pure_b, wh), None, site), st, fr, site)
                    return tgt
                # any other store through a transposed view: the contents of the array it views are not known any more
                st.cur[base_.id] = self.unknown("out=-through-transposed-view", site, (self.res(base_, st),))
            sel = self.mk("Subscript", (pure, wh), None, site)
            new = self.mk("Scatter", (self.res(tgt, st), wh, sel), None, site)
            self.effect("write", site, st, fr, node=tgt, roots=self.roots(tgt), idx=wh,
                        value=sel, how="out=,where=", new=new)
            st.cur[tgt.id] = new
            return tgt
        if "out" in kw:
            tgt = kw["out"]
            self.effect("write", site, st, fr, node=tgt, roots=self.roots(tgt), idx=None,
                        value=n, how="out=")
            st.cur[tgt.id] = n
        if cat == "rng" or cat == "rng-ctor":
            self.effect("rng", site, st, fr, node=n, callee=q)
        elif cat == "clock-env":
            self.effect("clock-env", site, st, fr, node=n, callee=q)
        elif cat == "io":
            self.effect("io", site, st, fr, node=n, callee=q)
        elif cat == "io-write":
            self.effect("io-write", site, st, fr, node=n, callee=q)
        elif cat == "warn":
            self.effect("warn", site, st, fr, node=n, callee=q)
        elif cat == "unknown":
            self.effect("extcall-unknown", site, st, fr, node=n, callee=q)
        elif cat == "mutate" and q in ("numpy.putmask", "numpy.place", "numpy.copyto") and \
                self._masked_store_call(q, pos, kw, st, fr, site):
            return self.const(None, site)
        elif cat == "mutate":
            self.effect("write", site, st, fr, node=pos[0] if pos else n,
                        roots=self.roots(pos[0]) if pos else [], idx=None, value=n, how=q)
            if pos and q.startswith("numpy."):
                st.cur[pos[0].id] = n           # the argument's contents after the call
                self._propagate_view_write(pos[0], n, st, site)
        return n

    def _masked_store_call(self, q, pos, kw, st, fr, site) -> bool:
        """np.place(a, m, v) is a[m] = v (v handed out in mask order); np.putmask(a, m, v) and np.copyto(a, v, where=m)
        take v AT the masked positions (a[m] = v[m] for a full-size v): the same store, marked 'aligned_values'"""
        names = {"numpy.putmask": ("a", "mask", "values"), "numpy.place": ("arr", "mask", "vals"),
                 "numpy.copyto": ("dst", "src")}[q]
        args = dict(zip(names, pos))
        if len(pos) > len(names):
            return False
        for k, v in kw.items():
            if k in args or (k not in names and not (q == "numpy.copyto" and k == "where")):
                return False
            args[k] = v
        if any(k not in args for k in names):
            return False
        tgt = args[names[0]]
        if q == "numpy.copyto":
            idx = args.get("where")
            val = args["src"]
            if idx is None or (idx.op == "Const" and idx.attr is True):
                idx = self.const(Ellipsis, site)
        else:
            idx, val = args[names[1]], args[names[2]]
        before = st.cur.get(tgt.id)
        self.write(tgt, idx, val, st, fr, site, None)
        new = st.cur.get(tgt.id)
        if q != "numpy.place" and new is not None and new is not before and new.op == "Scatter" and \
                not (idx.op == "Const" and idx.attr is Ellipsis):
            new.extra = dict(new.extra or {}, aligned_values=True)
        return True

    def _phi_tuple_len(self, v):
        if v.op == "Phi":
            a = self._phi_tuple_len(v.args[1])
            b = self._phi_tuple_len(v.args[2])
            if a is not None and a == b:
                return a
            return None
        return self.seq_len(v)

    def static_len(self, v: Node) -> Optional[int]:
        """length of a literal numpy array (module constants)"""
        if v.op == "Call" and v.args[0].op == "Ext" and v.args[0].attr == "numpy.array" and len(v.args) >= 2:
            return self.seq_len(v.args[1])
        if v.op == "BinOp" and v.attr in ("Mult", "Add", "Sub", "Div"):
            a, b = self.static_len(v.args[0]), self.static_len(v.args[1])
            if a is not None and b is None and v.args[1].op in ("Const", "BinOp"):
                return a
            if b is not None and a is None and v.args[0].op in ("Const", "BinOp"):
                return b
            if a is not None and a == b:
                return a
        return None

    def _is_numpy_array(self, v: Node, depth=0) -> bool:
        """v is known to be an ndarray: built by a numpy array constructor (possibly sliced / copied), or an array input"""
        if depth > 4:
            return False
        if v.op == "Input":
            return bool(v.extra and v.extra.get("kind") == "array")
        if v.op == "Call" and v.args and v.args[0].op == "Ext":
            sh_ = X.np_short(v.args[0].attr)
            return sh_ in ("linspace", "arange", "array", "asarray", "zeros", "ones", "empty", "full", "logspace",
                           "geomspace", "copy", "ascontiguousarray", "sort", "cumsum", "concatenate", "flip",
                           "zeros_like", "ones_like", "empty_like", "full_like", "negative", "log10", "log")
        if v.op == "Subscript" and v.args[1].op == "Slice":
            return self._is_numpy_array(v.args[0], depth + 1)
        if v.op == "UnaryOp" and v.attr == "USub":
            return self._is_numpy_array(v.args[0], depth + 1)
        if v.op == "MCall" and v.attr[0] in ("copy", "astype", "ravel", "flatten") and v.args:
            return self._is_numpy_array(v.args[0], depth + 1)
        return False

    def fold_isinstance(self, v: Node, t: Node) -> Optional[bool]:
        if t.op == "Tuple":
            rs = [self.fold_isinstance(v, x) for x in t.args]
            if any(r is True for r in rs):
                return True
            if all(r is False for r in rs):
                return False
            return None
        if v.op == "Phi":
            a, b = self.fold_isinstance(v.args[1], t), self.fold_isinstance(v.args[2], t)
            return a if (a is not None and a == b) else None
        tq = t.attr if t.op == "Ext" else None
        if tq == "builtins.type":
            if v.op == "Class":
                return True
            if v.op == "Ext":
                return v.attr in ("builtins.int", "builtins.float", "builtins.str", "builtins.bool", "builtins.list",
                                  "builtins.dict", "builtins.tuple", "builtins.bytes", "types.NoneType") or None
            if v.op in ("PydAnnot", "Const", "Tuple", "List", "Dict", "Obj", "Func", "Closure"):
                return False            # typing constructs (Optional[...], Union[...]) and values are not classes
        BT = {"builtins.int": int, "builtins.float": float, "builtins.str": str,
              "builtins.bool": bool, "builtins.tuple": tuple, "builtins.list": list,
              "builtins.dict": dict, "builtins.bytes": bytes}
        MAPS = ("collections.abc.MutableMapping", "typing.MutableMapping", "collections.abc.Mapping", "typing.Mapping",
                "builtins.dict")
        if v.op == "Input" and v.extra and v.extra.get("kind") in ("float", "int", "array", "str") and tq in MAPS:
            return False            # a number / array / string is not a mapping
        if v.op == "Const":
            if tq in MAPS:
                return False
            if tq in BT:
                return isinstance(v.attr, BT[tq])
            if tq in ("typing.Callable", "collections.abc.Callable"):
                return False
            if t.op == "Class":
                return False
            if tq in ("typing.Iterable", "collections.abc.Iterable"):
                return isinstance(v.attr, (str, tuple, bytes))
            return None
        if v.op == "CondList" and v.attr == "list":
            v = self.mk("List", (), None, v.site)       # a list whatever it holds
        if v.op in ("Tuple", "List", "Dict"):
            kind = {"Tuple": tuple, "List": list, "Dict": dict}[v.op]
            if tq in BT:
                return BT[tq] is kind
            if tq in ("typing.Iterable", "collections.abc.Iterable"):
                return True
            if tq in MAPS:
                return v.op == "Dict"
            if tq in ("typing.Callable", "collections.abc.Callable") or t.op == "Class":
                return False
            return None
        if v.op == "Obj":
            ci = v.extra.get("cls")
            if t.op == "Class" and ci is not None:
                return self.is_subclass(ci, t.attr)
            if tq in BT:
                return False
            if tq in ("typing.Callable", "collections.abc.Callable") and ci is not None:
                return self.find_method(ci, "__call__") is not None
            return None
        if v.op in ("Func", "Closure", "BoundMethod", "PlotWrap"):
            if tq in ("typing.Callable", "collections.abc.Callable"):
                return True
            if tq in BT or t.op == "Class":
                return False
            return None
        if v.op == "Cfg":
            ty = self.cfg_type(v.attr)
            if ty is None:
                return None
            if tq in BT:
                prim = ty.get("prim")
                if prim is not None:
                    if ty.get("optional"):
                        return None
                    if prim == "int":
                        return BT[tq] in (int,)
                    if prim == "bool":
                        return BT[tq] in (bool, int)
                    if prim == "float":
                        return None if BT[tq] in (float, int) else False
                    if prim == "str":
                        return BT[tq] is str
                    return None
                return False if ty.get("models") else None
            if tq in ("typing.Callable", "collections.abc.Callable"):
                return False
            if t.op == "Class" and ty.get("models"):
                names = ty["models"]
                tn = t.attr.qualname
                if tn not in names:
                    return False
                if len(names) == 1 and not ty.get("optional"):
                    return True
                return None
            return None
        if v.op == "Input" and v.extra:
            kind = v.extra.get("kind")
            if kind == "array" and (tq in BT or t.op == "Class"):
                return False
            if kind == "int" and tq in BT:
                return BT[tq] is int
            if kind == "float" and tq in BT:
                return BT[tq] is float
            return None
        if v.op in ("BinOp", "Compare", "Subscript", "Scatter") or \
                (v.op == "Call" and v.extra and v.extra.get("cat") in ("ufunc", "alloc", "alloc-like", "rng")):
            if tq in ("builtins.int", "builtins.str", "builtins.tuple", "builtins.list",
                      "builtins.dict", "builtins.bool") or t.op == "Class":
                if v.op == "BinOp" and all(a.op in ("Const", "Len", "Cfg") for a in v.args):
                    return None
                return False
            return None
        return None

    # ------------------------------------------------------------ nditer idiom
    def make_nditer(self, P, kw, st, fr, site) -> Node:
        ops = P[0]
        n = self.mk("NdIter", (ops,), self.g.serial(), site)
        operands, chunks = [], []
        items = ops.args if ops.op in ("List", "Tuple") else None
        if items is None:
            n.extra = {"operands": (), "chunks": ()}
            self.effect("unsupported", site, st, fr, what="nditer-operands")
            return n
        for k, o in enumerate(items):
            ov = self.res(o, st)
            if ov.op == "Const" and ov.attr is None:
                alloc = self.mk("NdAlloc", (n,), k, site)
                ch = self.mk("NdChunk", (alloc,), k, site)
                ch.extra = {"view_of": alloc}
                operands.append(alloc)
                chunks.append(ch)
            else:
                # the chunk of a supplied operand names its iterator (extra["nditer"]): a value computed from chunks is
                # recognisably the product of that loop (rules: common.iterators_in)
                ch = self.mk("NdChunk", (ov,), k, site)
                ch.extra = {"view_of": o, "nditer": n}
                operands.append(o)
                chunks.append(ch)
        n.extra = {"operands": tuple(operands), "chunks": tuple(chunks),
                   "flags": kw.get("flags"), "op_flags": kw.get("op_flags")}
        return n
