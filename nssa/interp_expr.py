"""L3 builder, part 2: expressions."""
from __future__ import annotations

import ast
import operator
from typing import Optional

from . import extmodels as X
from .ir import Node
from .state import Frame, PathEnd, St

BINOPS = {ast.Add: "Add", ast.Sub: "Sub", ast.Mult: "Mult", ast.Div: "Div", ast.Pow: "Pow",
          ast.Mod: "Mod", ast.FloorDiv: "FloorDiv", ast.BitAnd: "BitAnd", ast.BitOr: "BitOr",
          ast.BitXor: "BitXor", ast.MatMult: "MatMult", ast.LShift: "LShift",
          ast.RShift: "RShift"}
UNOPS = {ast.USub: "USub", ast.UAdd: "UAdd", ast.Invert: "Invert", ast.Not: "Not"}
CMPOPS = {ast.Lt: "Lt", ast.LtE: "LtE", ast.Gt: "Gt", ast.GtE: "GtE", ast.Eq: "Eq",
          ast.NotEq: "NotEq", ast.Is: "Is", ast.IsNot: "IsNot", ast.In: "In",
          ast.NotIn: "NotIn"}
PYOP = {"Add": operator.add, "Sub": operator.sub, "Mult": operator.mul,
        "FloorDiv": operator.floordiv, "Mod": operator.mod, "Pow": operator.pow}
PYCMP = {"Lt": operator.lt, "LtE": operator.le, "Gt": operator.gt, "GtE": operator.ge,
         "Eq": operator.eq, "NotEq": operator.ne}


def is_basic_index(idx: Node) -> Optional[bool]:
    """True: numpy basic indexing (view); False: advanced (copy); None: unknown"""
    if idx.op == "Slice":
        return True
    if idx.op == "Const":
        return isinstance(idx.attr, (int, type(None), type(Ellipsis))) and not isinstance(idx.attr, bool) \
            or idx.attr is None or idx.attr is Ellipsis
    if idx.op == "Tuple":
        rs = [is_basic_index(a) for a in idx.args]
        if all(r is True for r in rs):
            return True
        if any(r is False for r in rs):
            return False
        return None
    if idx.op in ("Compare", "BoolOp", "UnaryOp", "BinOp", "Call", "Subscript", "Scatter",
                  "List", "ListComp", "MCall"):
        return False
    if idx.op in ("IterElem", "IterIdx", "LoopIdx", "Len"):
        return True
    return None


IDENTITY_OPS = ("Class", "Func", "Closure", "Ext", "Module")


class ExprMixin:

    def val(self, expr, fr, st) -> Node:
        return self.res(self.eval(expr, fr, st), st)

    def eval(self, e, fr: Frame, st: St) -> Node:
        m = getattr(self, "ev_" + type(e).__name__, None)
        if m is None:
            return self.unknown(f"expr:{type(e).__name__}", self.site_of(e, fr))
        return m(e, fr, st)

    # -------------------------------------------------------------- leaves
    def ev_Constant(self, e, fr, st):
        return self.const(e.value, self.site_of(e, fr))

    def ev_Name(self, e, fr, st):
        v = self.lookup_name(e.id, fr, st, self.site_of(e, fr))
        if v.op == "Phi" and st.pc:
            # a branch-selected value read on a path that has already decided the same condition
            v = self.select_by_pc(v, st)
        return v

    def ev_Attribute(self, e, fr, st):
        obj = self.eval(e.value, fr, st)
        return self.load_attr(obj, e.attr, st, fr, self.site_of(e, fr))

    # -------------------------------------------------------------- operators
    def binop(self, opname, l: Node, r: Node, site, extra=None) -> Node:
        if l.op == "Const" and r.op == "Const":
            a, b = l.attr, r.attr
            try:
                if isinstance(a, str) and isinstance(b, str) and opname == "Add":
                    return self.const(a + b, site)
                if isinstance(a, str) and opname == "Mod":
                    pass
                elif (type(a) is int and type(b) is int and opname in PYOP
                      and not (opname == "Pow" and (b < 0 or b > 64))):
                    return self.const(PYOP[opname](a, b), site)
                elif isinstance(a, tuple) and isinstance(b, tuple) and opname == "Add":
                    return self.const(a + b, site)
            except Exception:
                pass
        if opname == "Add" and l.op in ("Tuple", "List") and r.op == l.op:
            return self.mk(l.op, l.args + r.args, None, site)
        if opname == "Add":
            # concatenation with a branch-selected tuple / list: the concatenation of the selected one
            for x, y, left in ((l, r, True), (r, l, False)):
                if x.op == "Phi" and y.op in ("Tuple", "List") and self._phi_seq(x, y.op):
                    def cat(n_):
                        if n_.op == "Phi":
                            return self.phi(n_.args[0], cat(n_.args[1]), cat(n_.args[2]), site)
                        return self.mk(y.op, (n_.args + y.args) if left else (y.args + n_.args), None, site)
                    return cat(x)
        if opname == "BitOr" and (l.op == "Dict" or r.op == "Dict" or (l.op == "Phi" and r.op == "Phi")):
            m = self._dict_union(l, r, site)
            if m is not None:
                return m
        if opname == "Add" and l.op == "FStr" or (opname == "Add" and r.op == "FStr"):
            return self.fstr([l, r], site)
        if opname == "Add" and ((l.op == "Const" and isinstance(l.attr, str)) or
                                (r.op == "Const" and isinstance(r.attr, str))):
            return self.fstr([l, r], site)
        n = self.mk("BinOp", (l, r), opname, site)
        if extra:
            n.extra = extra
        return n

    def _phi_seq(self, n: Node, kind, depth=0) -> bool:
        if n.op == kind:
            return not any(a.op == "Starred" for a in n.args)
        return n.op == "Phi" and depth < 4 and self._phi_seq(n.args[1], kind, depth + 1) and \
            self._phi_seq(n.args[2], kind, depth + 1)

    def keys_differ(self, a: Node, b: Node) -> bool:
        """two key expressions provably denote different values (different constants, or tuples that differ in a
        constant component / in length)"""
        ka, kb = self.const_key(a), self.const_key(b)
        if ka is not self.NOKEY and kb is not self.NOKEY:
            return ka != kb or type(ka) is not type(kb)
        ta, tb = a.op == "Tuple", b.op == "Tuple"
        if ta and tb:
            if any(x.op == "Starred" for x in a.args + b.args):
                return False
            if len(a.args) != len(b.args):
                return True
            return any(self.keys_differ(x, y) for x, y in zip(a.args, b.args))
        if (ta and kb is not self.NOKEY and not isinstance(kb, tuple)) or \
                (tb and ka is not self.NOKEY and not isinstance(ka, tuple)):
            return True
        return False

    def _dict_union(self, l: Node, r: Node, site, depth=0):
        """l | r for dict values with statically known keys (either side may be selected by a branch)"""
        if depth > 4:
            return None
        if l.op == "Phi":
            a = self._dict_union(l.args[1], r, site, depth + 1)
            b = self._dict_union(l.args[2], r, site, depth + 1)
            return None if a is None or b is None else self.phi(l.args[0], a, b, site)
        if r.op == "Phi":
            a = self._dict_union(l, r.args[1], site, depth + 1)
            b = self._dict_union(l, r.args[2], site, depth + 1)
            return None if a is None or b is None else self.phi(r.args[0], a, b, site)
        if l.op != "Dict" or r.op != "Dict":
            return None
        new = l
        for kd, v in self.dict_items(r):
            if kd[0] != "k":
                return None
            new = self.dict_set(new, kd[1], v, site)
        return self.mk("Dict", new.args, new.attr, site) if new is l else new

    def fstr(self, parts, site):
        flat = []
        for p in parts:
            if p.op == "FStr":
                flat.extend(p.args)
            else:
                flat.append(p)
        merged = []
        for p in flat:
            if p.op == "Const" and isinstance(p.attr, str) and merged and \
                    merged[-1].op == "Const" and isinstance(merged[-1].attr, str):
                merged[-1] = self.const(merged[-1].attr + p.attr, site)
            else:
                merged.append(p)
        if len(merged) == 1 and merged[0].op == "Const":
            return merged[0]
        return self.mk("FStr", tuple(merged), None, site)

    def ev_BinOp(self, e, fr, st):
        l = self.val(e.left, fr, st)
        r = self.val(e.right, fr, st)
        return self.binop(BINOPS[type(e.op)], l, r, self.site_of(e, fr))

    def unop(self, opname, v: Node, site, extra=None) -> Node:
        if opname == "Not":
            t = self.truth(v)
            if t is not None:
                return self.const(not t, site)
        if v.op == "Const" and opname in ("USub", "UAdd") and isinstance(v.attr, (int, float)) \
                and not isinstance(v.attr, bool):
            return self.const(-v.attr if opname == "USub" else v.attr, site)
        n = self.mk("UnaryOp", (v,), opname, site)
        if extra:
            n.extra = extra
        return n

    def ev_UnaryOp(self, e, fr, st):
        return self.unop(UNOPS[type(e.op)], self.val(e.operand, fr, st), self.site_of(e, fr))

    def ev_BoolOp(self, e, fr, st):
        site = self.site_of(e, fr)
        is_and = isinstance(e.op, ast.And)
        vals = []
        for sub in e.values:
            v = self.val(sub, fr, st)
            t = self.truth(v)
            if t is not None:
                if is_and and not t:
                    if not vals:
                        return v
                    vals.append(v)
                    break
                if (not is_and) and t:
                    if not vals:
                        return v
                    vals.append(v)
                    break
                # neutral element: drop unless it is the last value
                if sub is e.values[-1] and not vals:
                    return v
                if sub is e.values[-1]:
                    vals.append(v)
                continue
            vals.append(v)
        if not vals:
            return self.const(is_and, site)
        if len(vals) == 1:
            return vals[0]
        return self.mk("BoolOp", tuple(vals), "And" if is_and else "Or", site)

    # ---- branch-selected identities (dispatch tables):  Phi(c, A, B) is X  ==  boolean formula over c
    def _identity_leaf(self, n: Node) -> bool:
        return n.op in IDENTITY_OPS or (n.op == "Const" and (n.attr is None or isinstance(n.attr, (str, bool, int))))

    def _identity_tree(self, n: Node, depth=0) -> bool:
        if n.op == "Phi" and depth < 8:
            return self._identity_tree(n.args[1], depth + 1) and self._identity_tree(n.args[2], depth + 1)
        return self._identity_leaf(n)

    def _identity_equal(self, a: Node, b: Node) -> bool:
        if a.op == "Const" or b.op == "Const":
            return a.op == b.op and a.attr == b.attr and type(a.attr) is type(b.attr)
        return a is b or (a.op == b.op and a.attr is b.attr)

    def _not(self, f: Node, site) -> Node:
        if f.op == "Const" and isinstance(f.attr, bool):
            return self.const(not f.attr, site)
        if f.op == "UnaryOp" and f.attr == "Not":
            return f.args[0]
        return self.mk("UnaryOp", (f,), "Not", site)

    def _bool_of_phi(self, n: Node, leaf_truth, site) -> Node:
        if n.op != "Phi":
            return self.const(bool(leaf_truth(n)), site)
        c = n.args[0]
        a = self._bool_of_phi(n.args[1], leaf_truth, site)
        b = self._bool_of_phi(n.args[2], leaf_truth, site)
        ca = a.attr if a.op == "Const" else None
        cb = b.attr if b.op == "Const" else None
        if ca is not None and cb is not None:
            if ca == cb:
                return self.const(ca, site)
            return c if ca else self._not(c, site)
        if ca is True:
            return self.mk("BoolOp", (c, b), "Or", site)
        if ca is False:
            return self.mk("BoolOp", (self._not(c, site), b), "And", site)
        if cb is True:
            return self.mk("BoolOp", (self._not(c, site), a), "Or", site)
        if cb is False:
            return self.mk("BoolOp", (c, a), "And", site)
        return self.mk("BoolOp", (self.mk("BoolOp", (c, a), "And", site),
                                  self.mk("BoolOp", (self._not(c, site), b), "And", site)), "Or", site)

    def compare(self, opname, l: Node, r: Node, site) -> Node:
        if l.op == "Const" and r.op == "Const" and opname in PYCMP:
            try:
                return self.const(bool(PYCMP[opname](l.attr, r.attr)), site)
            except Exception:
                pass
        if opname in ("Is", "IsNot", "Eq", "NotEq"):
            for a, b in ((l, r), (r, l)):
                if a.op == "Phi" and self._identity_leaf(b) and self._identity_tree(a):
                    f = self._bool_of_phi(a, lambda x: self._identity_equal(x, b), site)
                    if opname in ("IsNot", "NotEq"):
                        f = self._not(f, site)
                    return f
        if opname in ("Is", "IsNot"):
            for a, b in ((l, r), (r, l)):
                if b.op == "Const" and b.attr is None and a.op == "Phi":
                    # Optional value chosen by branches: `x is None` is the condition under which None was chosen
                    leaves_ = []

                    def rec_(n_, d_=0):
                        if n_.op == "Phi" and d_ < 8:
                            rec_(n_.args[1], d_ + 1)
                            rec_(n_.args[2], d_ + 1)
                        else:
                            leaves_.append(n_)
                    rec_(a)
                    if all(x.op != "Phi" and self.not_none(x) is not None for x in leaves_):
                        f = self._bool_of_phi(a, lambda x: not self.not_none(x), site)
                        return f if opname == "Is" else self._not(f, site)
            for a, b in ((l, r), (r, l)):
                if b.op == "Const" and b.attr is None:
                    nn = self.not_none(a)
                    if nn is not None:
                        is_none = not nn
                        return self.const(is_none if opname == "Is" else not is_none, site)
            if l.op == "Const" and r.op == "Const":
                same = l.attr is r.attr or (l.attr == r.attr and type(l.attr) is type(r.attr))
                return self.const(same if opname == "Is" else not same, site)
        if opname in ("In", "NotIn") and self.const_key(l) is not self.NOKEY:
            lk = self.const_key(l)
            keys = None
            c = r
            if c.op == "DictKeys":
                c = c.args[0]
            if c.op == "Call" and c.args and c.args[0].op == "Ext" and c.args[0].attr in (
                    "builtins.frozenset", "builtins.set", "builtins.tuple", "builtins.list") and len(c.args) == 2:
                c = c.args[1]               # frozenset({...}) holds what the literal holds
            if c.op == "Set" and all(self.const_key(a) is not self.NOKEY for a in c.args):
                keys = [self.const_key(a) for a in c.args]
            elif c.op == "Dict" and all(k[0] == "k" for k in c.attr):
                keys = [k[1] for k in c.attr]
            elif c.op in ("Tuple", "List") and all(self.const_key(a) is not self.NOKEY for a in c.args):
                keys = [self.const_key(a) for a in c.args]
            elif c.op == "Const" and isinstance(c.attr, (str, tuple)):
                try:
                    keys = c.attr
                    res = lk in keys
                    return self.const(res if opname == "In" else not res, site)
                except Exception:
                    keys = None
            if keys is not None:
                res = lk in keys
                return self.const(res if opname == "In" else not res, site)
        if opname in ("In", "NotIn"):
            # membership of a unit / class / function object in a table keyed by such objects
            c = r.args[0] if r.op == "DictKeys" else r
            ident = lambda x: x.op in IDENTITY_OPS
            same = lambda a, b: a is b or (a.op == b.op and a.attr is not None and a.attr == b.attr and a.op == "Ext")
            if c.op == "Dict" and not any(k[0] == "**" for k in c.attr):
                keys_n = [c.args[i] for kd, i in self._dict_key_slots(c) if kd[0] == "n"]
                has_const = any(kd[0] == "k" for kd in c.attr)
                lhs = None
                if ident(l):
                    lhs = l
                elif l.op == "BinOp" and l.attr == "Pow" and ident(l.args[0]) and l.args[1].op == "Const" and \
                        l.args[1].attr not in (0, 1):
                    lhs = "composite"       # unit ** k (k != 0, 1) is never one of the plain unit objects
                if lhs is not None and all(ident(k_) for k_ in keys_n) and not has_const:
                    res = lhs != "composite" and any(same(lhs, k_) for k_ in keys_n)
                    return self.const(res if opname == "In" else not res, site)
        if opname in ("In", "NotIn"):
            # membership of a symbolic key (e.g. a tuple holding a configuration value) in a dict whose keys are known
            # expressions: decided when a key is the same value, or every key provably differs
            c = r.args[0] if r.op == "DictKeys" else r
            if c.op == "Dict" and not any(k[0] == "**" for k in c.attr) and self.const_key(l) is self.NOKEY:
                cands = [self.key_node(kd[1]) if kd[0] == "k" else c.args[i] for kd, i in self._dict_key_slots(c)]
                if any(self.g.vn(k_) == self.g.vn(l) for k_ in cands):
                    return self.const(opname == "In", site)
                if all(self.keys_differ(l, k_) for k_ in cands):
                    return self.const(opname == "NotIn", site)
        if opname in ("Eq", "NotEq") and l.op == "Const" and isinstance(l.attr, str) and \
                r.op in ("Tuple", "List"):
            return self.const(opname == "NotEq", site)
        return self.mk("Compare", (l, r), opname, site)

    def ev_Compare(self, e, fr, st):
        site = self.site_of(e, fr)
        left = self.val(e.left, fr, st)
        parts = []
        for op, comp in zip(e.ops, e.comparators):
            right = self.val(comp, fr, st)
            parts.append(self.compare(CMPOPS[type(op)], left, right, site))
            left = right
        if len(parts) == 1:
            return parts[0]
        keep = []
        for p in parts:
            t = self.truth(p)
            if t is False:
                return self.const(False, site)
            if t is None:
                keep.append(p)
        if not keep:
            return self.const(True, site)
        if len(keep) == 1:
            return keep[0]
        return self.mk("BoolOp", tuple(keep), "And", site)

    def ev_IfExp(self, e, fr, st):
        site = self.site_of(e, fr)
        c = self.val(e.test, fr, st)
        body, orelse = e.body, e.orelse
        while c.op == "UnaryOp" and c.attr == "Not":      # canonical: positive condition (see ex_If)
            c = c.args[0]
            body, orelse = orelse, body

        class _V:
            pass
        e = _V()
        e.body, e.orelse = body, orelse
        t = self.truth(c)
        if t is True:
            return self.eval(e.body, fr, st)
        if t is False:
            return self.eval(e.orelse, fr, st)
        base_pc = st.pc
        s1, s2 = st.copy(), st.copy()
        s1.pc = base_pc + ((c, True),)
        s2.pc = base_pc + ((c, False),)
        v1 = v2 = None
        try:
            v1 = self.eval(e.body, fr, s1)
        except PathEnd:
            pass
        try:
            v2 = self.eval(e.orelse, fr, s2)
        except PathEnd:
            pass
        if v1 is None and v2 is None:
            raise PathEnd()
        if v1 is None:
            st.assign_from(s2)
            return v2
        if v2 is None:
            st.assign_from(s1)
            return v1
        st.assign_from(self.merge2(c, s1, s2, base_pc))
        return self.phi(c, v1, v2, site)

    # -------------------------------------------------------------- containers
    def _elts(self, elts, fr, st, site):
        out = []
        for x in elts:
            if isinstance(x, ast.Starred):
                v = self.val(x.value, fr, st)
                n = self.seq_len(v)
                if v.op in ("Tuple", "List") and n is not None:
                    out.extend(v.args)
                elif n is not None:
                    out.extend(self.elem(v, i) for i in range(n))
                elif v.op in ("DictValues", "DictKeys", "Zip", "Enumerate", "DictItems") and \
                        self._dict_view_items(v) is not None:
                    out.extend(self._dict_view_items(v))
                else:
                    out.append(self.mk("Starred", (v,), None, site))
            else:
                out.append(self.eval(x, fr, st))
        return out

    def _dict_view_items(self, v):
        """elements of a view of a dictionary with known slots (values(), keys(), items()) or of a zip / enumerate
        of known sequences, else None"""
        if v.op == "DictValues" and v.args and v.args[0].op == "Dict" and not any(k[0] == "**" for k in v.args[0].attr):
            d = v.args[0]
            return [d.args[i] if kd[0] == "k" else d.args[i + 1] for kd, i in self._dict_key_slots(d)]
        if v.op in ("DictKeys", "Zip", "Enumerate"):
            return self.known_items(v)
        return None

    def ev_Tuple(self, e, fr, st):
        site = self.site_of(e, fr)
        return self.mk("Tuple", self._elts(e.elts, fr, st, site), None, site)

    def ev_List(self, e, fr, st):
        site = self.site_of(e, fr)
        return self.mk("List", self._elts(e.elts, fr, st, site), None, site)

    def ev_Set(self, e, fr, st):
        site = self.site_of(e, fr)
        return self.mk("Set", self._elts(e.elts, fr, st, site), None, site)

    def ev_Dict(self, e, fr, st):
        site = self.site_of(e, fr)
        keys, args = [], []
        for k, v in zip(e.keys, e.values):
            if k is None:
                sv = self.val(v, fr, st)
                if sv.op == "Dict":
                    # inline a known dict
                    i = 0
                    for kd in sv.attr:
                        if kd[0] == "n":
                            keys.append(kd)
                            args.extend(sv.args[i:i + 2])
                            i += 2
                        else:
                            keys.append(kd)
                            args.append(sv.args[i])
                            i += 1
                else:
                    keys.append(("**",))
                    args.append(sv)
            else:
                kn = self.val(k, fr, st)
                vn_ = self.eval(v, fr, st)
                ck_ = self.const_key(kn)
                if ck_ is not self.NOKEY:
                    keys.append(("k", ck_))
                    args.append(vn_)
                else:
                    keys.append(("n",))
                    args.extend([kn, vn_])
        return self._dict_of(keys, args, site)

    def _dict_of(self, keys, args, site, _depth=0):
        """Dict node from key descriptors and values; `**` of a branch-selected known dict gives one dict per branch"""
        i = 0
        for pos_, kd in enumerate(keys):
            if kd == ("**",) and args[i].op == "Phi" and _depth < 6:
                c, a, b = args[i].args

                def known(x, d=0):
                    return x.op == "Dict" or (x.op == "Phi" and d < 4 and known(x.args[1], d + 1) and known(x.args[2], d + 1))
                if known(a) and known(b):
                    alts = []
                    for arm in (a, b):
                        if arm.op == "Dict":
                            ak, aa = list(arm.attr), list(arm.args)
                        else:
                            ak, aa = [("**",)], [arm]
                        alts.append(self._dict_of(keys[:pos_] + ak + keys[pos_ + 1:], args[:i] + aa + args[i + 1:],
                                                  site, _depth + 1))
                    return self.phi(c, alts[0], alts[1], site)
            i += 2 if kd[0] == "n" else 1
        return self.mk("Dict", args, tuple(keys), site)

    def _dict_key_slots(self, d: Node):
        out, i = [], 0
        for kd in d.attr:
            out.append((kd, i))
            i += 2 if kd[0] == "n" else 1
        return out

    def dict_get(self, d: Node, key):
        """value for constant key in a Dict node (last wins) or None"""
        i = 0
        found = None
        for kd in d.attr:
            if kd[0] == "n":
                i += 2
                continue
            if kd[0] == "k" and kd[1] == key:
                found = d.args[i]
            i += 1
        return found

    def dict_items(self, d: Node):
        """list of (keydesc, value-or-(k,v))"""
        out, i = [], 0
        for kd in d.attr:
            if kd[0] == "n":
                out.append((kd, (d.args[i], d.args[i + 1])))
                i += 2
            else:
                out.append((kd, d.args[i]))
                i += 1
        return out

    def dict_set(self, d: Node, key, value, site) -> Node:
        keys, args = [], []
        for kd, v in self.dict_items(d):
            if kd[0] == "k" and kd[1] == key:
                continue
            keys.append(kd)
            if kd[0] == "n":
                args.extend(v)
            else:
                args.append(v)
        keys.append(("k", key))
        args.append(value)
        return self.mk("Dict", args, tuple(keys), site)

    def ev_JoinedStr(self, e, fr, st):
        site = self.site_of(e, fr)
        parts = []
        for v in e.values:
            if isinstance(v, ast.Constant):
                parts.append(self.const(v.value, site))
            elif isinstance(v, ast.FormattedValue):
                x = self.val(v.value, fr, st)
                if v.format_spec is not None or v.conversion != -1:
                    spec = ast.unparse(v.format_spec) if v.format_spec is not None else ""
                    x = self.mk("Fmt", (x,), (spec, v.conversion), site)
                elif x.op == "Const" and isinstance(x.attr, (str, int)) and not isinstance(x.attr, bool):
                    x = self.const(str(x.attr), site)
                parts.append(x)
        return self.fstr(parts, site)

    def ev_NamedExpr(self, e, fr, st):
        v = self.eval(e.value, fr, st)
        self.assign(e.target, v, fr, st)
        return v

    def _yield_collect(self, items, st, site):
        """append to the hidden list of a generator that is read as the sequence of its yields"""
        acc = st.locals.get("$yield")
        if acc is None:
            return False
        cur = self.res(acc, st)
        if cur.op == "List":
            new = self.mk("List", cur.args + tuple(items), None, site)
        elif cur.op in ("LoopVar", "ListAppend") and len(items) == 1 and self._list_like(cur):
            new = self.mk("ListAppend", (cur, items[0]), None, site)
        else:
            new = self.mk("ListAppend", (cur, self.mk("Tuple", tuple(items), None, site)), "extend", site)
        st.cur[acc.id] = new
        return True

    def ev_Yield(self, e, fr, st):
        site = self.site_of(e, fr)
        v = self.eval(e.value, fr, st) if e.value is not None else self.const(None)
        hook = fr.cm_hook
        if hook is not None:
            # the generator of a @contextmanager: at its yield the with-block runs (in the frame of the function that
            # contains it, on the state reached here), then the generator resumes
            if hook["ran"]:
                self.effect("unsupported", site, st, fr, what="context manager yields on more than one path")
                return self.const(None, site)
            hook["ran"] = True
            ofr = hook["fr"]
            ost = St(hook["locals"], st.heap, st.cur, st.pc)
            if hook["target"] is not None:
                self.assign(hook["target"], v, ofr, ost)
            saved_fn = self._cur_fn
            self._cur_fn = ofr.func
            try:
                falls = self.exec_block(hook["body"], ofr, ost)
            finally:
                self._cur_fn = saved_fn
            hook["locals_after"], hook["falls"] = ost.locals, falls
            st.heap, st.cur, st.pc = ost.heap, ost.cur, ost.pc
            if not falls:
                # every path of the block leaves it (return / raise): the generator is closed at the yield; only
                # `finally` clauses around it would still run
                if any(isinstance(x, ast.Try) and x.finalbody for x in ast.walk(fr.func.node)):
                    self.effect("unsupported", site, st, fr, what="with-block left early through a context manager with "
                                "a finally clause")
                raise PathEnd()
            return self.const(None, site)
        if self._yield_collect([self.freeze(v, st)], st, site):
            return self.const(None, site)
        # a generator body analysed on request (Interp.analyse_generators): yields are effects
        self.effect("yield", site, st, fr, node=self.freeze(v, st))
        return self.const(None, site)

    def ev_YieldFrom(self, e, fr, st):
        site = self.site_of(e, fr)
        v = self.eval(e.value, fr, st)
        if "$yield" in st.locals:
            r_ = self.res(v, st)
            items = self.known_items(r_)
            if self._yield_collect(items if items is not None else [self.mk("Starred", (r_,), None, site)], st, site):
                return self.const(None, site)
        self.effect("yield-from", site, st, fr, node=self.freeze(v, st))
        return self.const(None, site)

    def ev_Slice(self, e, fr, st):
        site = self.site_of(e, fr)
        none = self.const(None)
        lo = self.val(e.lower, fr, st) if e.lower is not None else none
        hi = self.val(e.upper, fr, st) if e.upper is not None else none
        sp = self.val(e.step, fr, st) if e.step is not None else none
        return self.mk("Slice", (lo, hi, sp), None, site)

    def ev_Starred(self, e, fr, st):
        return self.mk("Starred", (self.val(e.value, fr, st),), None, self.site_of(e, fr))

    def ev_Lambda(self, e, fr, st):
        return self.make_closure(e, fr, st)

    # -------------------------------------------------------------- subscripts
    def ev_Subscript(self, e, fr, st):
        site = self.site_of(e, fr)
        base_id = self.eval(e.value, fr, st)
        idx = self.val(e.slice, fr, st)
        return self.subscript(base_id, idx, st, fr, site)

    def select_by_pc(self, n: Node, st: St) -> Node:
        """the alternative of a branch-selected value that the current path has already decided"""
        guard = 0
        while n.op == "Phi" and guard < 8:
            guard += 1
            c = n.args[0]
            pol = None
            for cc, p_ in st.pc:
                if cc is c:
                    pol = p_
                    break
            if pol is None:
                break
            n = n.args[1] if pol else n.args[2]
        return n

    def subscript(self, base_id: Node, idx: Node, st: St, fr: Frame, site, _depth=0) -> Node:
        base = self.res(base_id, st)
        if idx.op in ("Call", "Subscript") and hasattr(self, "_mask_of_index") and self._mask_of_index(idx) is not None \
                and base.op not in ("Dict", "Tuple", "List"):
            idx = self._mask_of_index(idx)      # x[flatnonzero(m)] selects what x[m] selects (1-D per-event arrays)
        if base.op == "Phi" and self.const_key(idx) is not self.NOKEY:
            base = self.select_by_pc(base, st)
        if base.op == "Scatter" and base.attr is None and idx.op == "Tuple" and \
                any(a.op == "Const" and isinstance(a.attr, str) for a in idx.args) and \
                self.g.vn(base.args[1]) == self.g.vn(idx):
            return base.args[2]         # d[key] = v ; d[key]  with a record-like key: the value just stored
        if base.op == "Obj" and base.extra and "tuple_fields" in base.extra and idx.op == "Const" and \
                isinstance(idx.attr, int) and not isinstance(idx.attr, bool):
            tf = base.extra["tuple_fields"]
            if -len(tf) <= idx.attr < len(tf):
                return tf[idx.attr]
        if base.op in ("Tuple", "List") and not any(a.op == "Starred" for a in base.args):
            if idx.op == "Const" and isinstance(idx.attr, int) and not isinstance(idx.attr, bool):
                if -len(base.args) <= idx.attr < len(base.args):
                    return base.args[idx.attr]
            if idx.op == "Slice" and all(a.op == "Const" for a in idx.args):
                sl = slice(*[a.attr for a in idx.args])
                try:
                    return self.mk(base.op, base.args[sl], None, site)
                except Exception:
                    pass
        if base.op == "Dict" and self.const_key(idx) is not self.NOKEY:
            ik = self.const_key(idx)
            v = self.dict_get(base, ik)
            if v is not None:
                return v
            if not any(k[0] in ("**", "n") for k in base.attr):
                self.effect("keyerror", site, st, fr, key=ik)
                return self.unknown(f"missing-key:{ik!r}", site)
        if base.op == "Dict" and self.const_key(idx) is self.NOKEY and idx.op not in IDENTITY_OPS and \
                idx.op in ("Tuple", "Cfg", "Input", "FStr", "BinOp") and not any(k[0] == "**" for k in base.attr):
            # symbolic key: the entry stored under the same value; else the entries it could equal, newest first
            slots = [(kd, i) for kd, i in self._dict_key_slots(base)]
            for kd, i in reversed(slots):
                if kd[0] == "n" and self.g.vn(base.args[i]) == self.g.vn(idx):
                    return base.args[i + 1]
            out = None
            for kd, i in slots:
                kn = self.key_node(kd[1]) if kd[0] == "k" else base.args[i]
                vn_ = base.args[i] if kd[0] == "k" else base.args[i + 1]
                if self.keys_differ(idx, kn):
                    continue
                eq = self.mk("Compare", (idx, kn), "Eq", site)
                out = self.phi(eq, vn_, out if out is not None else self.unknown("missing-key", site), site)
            if out is not None:
                return out
        if base.op == "Dict" and idx.op in IDENTITY_OPS and any(k[0] == "n" for k in base.attr) and \
                not any(k[0] == "**" for k in base.attr):
            hit, i = None, 0
            for kd in base.attr:
                if kd[0] == "n":
                    if base.args[i] is idx or (base.args[i].op == idx.op and base.args[i].attr is idx.attr):
                        hit = base.args[i + 1]
                    i += 2
                else:
                    i += 1
            if hit is not None:
                return hit
            if all(k[0] != "n" or base.args[j].op in IDENTITY_OPS for k, j in self._dict_key_slots(base)):
                # no such key: the look-up raises KeyError, this path ends here
                self.effect("raise", site, st, fr, node=idx, text=f"KeyError({self.g.show(idx, 1)})")
                raise PathEnd()
        if base.op == "Dict" and (idx.op == "Phi" or (idx.op == "Const" and idx.attr is None)) and _depth < 8 and \
                any(k[0] == "n" for k in base.attr) and not any(k[0] == "**" for k in base.attr):
            if idx.op == "Const":
                if not any(k[0] == "k" and k[1] is None for k in base.attr):
                    self.effect("raise", site, st, fr, node=idx, text="KeyError(None)")
                    raise PathEnd()
            else:
                # table[key] with a branch-selected key: one look-up per alternative; an alternative without an
                # entry raises and contributes no value
                c, a, b = idx.args
                va = vb = None
                base_pc = st.pc
                s1, s2 = st.copy(), st.copy()
                s1.pc = base_pc + ((c, True),)
                s2.pc = base_pc + ((c, False),)
                try:
                    va = self.subscript(base_id, a, s1, fr, site, _depth + 1)
                except PathEnd:
                    pass
                try:
                    vb = self.subscript(base_id, b, s2, fr, site, _depth + 1)
                except PathEnd:
                    pass
                if va is None and vb is None:
                    raise PathEnd()
                if va is None:
                    st.pc = s2.pc
                    return vb
                if vb is None:
                    st.pc = s1.pc
                    return va
                return self.phi(c, va, vb, site)
        if base.op == "Const" and idx.op == "Const" and isinstance(base.attr, (str, tuple)):
            try:
                return self.const(base.attr[idx.attr], site)
            except Exception:
                pass
        if base.op == "Phi" and _depth < 12 and \
                any(x.op in ("Tuple", "List", "Dict", "Obj", "Phi") for x in base.args[1:]):
            c, a, b = base.args
            va = self.subscript(a, idx, st, fr, site, _depth + 1) if a.op != "Undefined" else a
            vb = self.subscript(b, idx, st, fr, site, _depth + 1) if b.op != "Undefined" else b
            return self.phi(c, va, vb, site)
        if base.op == "Obj" and base.extra.get("cls") is not None:
            gi = self.find_method(base.extra["cls"], "__getitem__")
            if gi is not None:
                return self.call(self.bind_method(base, gi, gi.cls, site), [idx], {}, st, fr, site)
        if base.op == "ZipElem" and idx.op == "Const" and isinstance(idx.attr, int):
            return base.args[idx.attr]
        if base.op == "NdOperands" and idx.op == "Const" and isinstance(idx.attr, int):
            it = base.args[0]
            ops = it.extra["operands"]
            if -len(ops) <= idx.attr < len(ops):
                return ops[idx.attr]
        # string key on an external mapping-like object: stable identity per key
        if idx.op == "Const" and isinstance(idx.attr, str):
            key = (base_id.id, "[%s]" % idx.attr)
            memo = st.heap.get(key)
            if memo is not None and memo.op == "Subscript" and memo.args:
                v = base
                guard = 0
                while v is not memo.args[0] and v.op == "Scatter" and v.attr == "via-view" and guard < 1000:
                    v = v.args[0]
                    guard += 1
                if v is memo.args[0]:
                    return memo
            n = self.mk("Subscript", (base, idx), None, site)
            n.extra = {"view_of": base_id}
            st.heap[key] = n
            return n
        n = self.mk("Subscript", (base, idx), None, site)
        b = is_basic_index(idx)
        if b is True or b is None:
            n.extra = {"view_of": base_id, "basic": b}
        return n

    # -------------------------------------------------------------- comprehensions
    def iter_elem(self, it: Node, site, st=None) -> Node:
        if it.op == "ListOf" and it.args:
            return it.args[0]           # a homogeneous list: its generic element
        if it.op == "Zip":
            return self.mk("Tuple", tuple(self.iter_elem(a, site) for a in it.args), None, site)
        if it.op == "Enumerate":
            idx = self.mk("IterIdx", (it.args[0],), None, site)
            if it.attr:
                idx = self.mk("BinOp", (idx, self.const(it.attr, site)), "Add", site)
            return self.mk("Tuple", (idx, self.iter_elem(it.args[0], site)), None, site)
        if it.op == "DictItems":
            return self.mk("Tuple", (self.mk("IterKey", (it.args[0],), None, site),
                                     self.mk("IterElem", (it.args[0],), None, site)), None, site)
        # a generator with one yield per iteration of its loop: its element IS the yielded expression
        #   for x in gen(ys)   with   def gen(ys): for y in ys: yield f(y)     ==     for y in ys: x = f(y)
        if it.op == "Loop" and len(it.args) == 3 and it.extra and it.extra.get("generator_of") is not None:
            inner_it, init, body = it.args
            if init.op == "List" and not init.args and body.op == "ListAppend" and body.attr is None and \
                    body.args[0].op == "LoopVar" and body.args[0].attr == it.attr:
                return body.args[1]
        return self.mk("IterElem", (it,), None, site)

    def known_items(self, it: Node, limit=64):
        """explicit element list of a small literal sequence, else None"""
        depth_ok = True
        if it.op in ("Tuple", "List") and not any(a.op == "Starred" for a in it.args):
            return list(it.args) if len(it.args) <= limit else None
        if it.op == "Obj" and it.extra and it.extra.get("tuple_fields") is not None:
            tf = it.extra["tuple_fields"]           # a named-tuple instance iterates over its fields
            return list(tf) if len(tf) <= limit else None
        if it.op in ("Dict", "DictKeys") and depth_ok:
            d = it if it.op == "Dict" else it.args[0]
            if d.op == "Dict" and not any(k[0] == "**" for k in d.attr) and len(d.attr) <= limit:
                return [self.key_node(kd[1], it.site) if kd[0] == "k" else d.args[i] for kd, i in self._dict_key_slots(d)]
        if it.op == "Zip":
            cols = [self.known_items(a, limit) for a in it.args]
            for k_, a in enumerate(it.args):
                # a branch-selected tuple of known length: its elements are the branch-selected elements
                if cols[k_] is None and a.op == "Phi":
                    n_ = self.seq_len(a)
                    if n_ is not None and n_ <= limit:
                        cols[k_] = [self.elem(a, i) for i in range(n_)]
            if all(c is not None for c in cols) and cols:
                n = min(len(c) for c in cols)
                return [self.mk("Tuple", tuple(c[i] for c in cols), None, it.site) for i in range(n)]
            return None
        if it.op == "Enumerate":
            c = self.known_items(it.args[0], limit)
            if c is not None:
                return [self.mk("Tuple", (self.const(i), x), None, it.site) for i, x in enumerate(c, it.attr or 0)]
            return None
        # literal numpy arrays (module constants) and constant slices of them: the elements are arr[k]
        n_arr = self.static_len(it)
        if n_arr is not None and it.op != "Const":
            return [self.mk("Subscript", (it, self.const(k)), None, it.site) for k in range(n_arr)] \
                if n_arr <= limit else None
        if it.op == "Subscript" and it.args[1].op == "Slice" and all(
                a.op == "Const" and (a.attr is None or type(a.attr) is int) for a in it.args[1].args):
            n_arr = self.static_len(it.args[0])
            if n_arr is not None:
                ks = range(n_arr)[slice(*[a.attr for a in it.args[1].args])]
                return [self.mk("Subscript", (it.args[0], self.const(k)), None, it.site) for k in ks] \
                    if len(ks) <= limit else None
        if it.op == "Range" and all(a.op == "Const" and isinstance(a.attr, int) for a in it.args):
            r = range(*[a.attr for a in it.args])
            if len(r) <= limit:
                return [self.const(i) for i in r]
            return None
        if it.op == "DictItems" and it.args[0].op == "Dict":
            d = it.args[0]
            if all(k[0] == "k" for k in d.attr) and len(d.attr) <= limit:
                return [self.mk("Tuple", (self.key_node(k[1], it.site), v), None, it.site)
                        for k, v in self.dict_items(d)]
            # keys that are objects (classes, functions, library types) written in the literal: distinct objects, the
            # items in the order written
            if all(k[0] in ("k", "n") for k in d.attr) and len(d.attr) <= limit and all(
                    k[0] == "k" or v[0].op in ("Class", "Func", "Ext", "Closure") for k, v in self.dict_items(d)) and \
                    len({self.g.vn(v[0]) for k, v in self.dict_items(d) if k[0] == "n"}) == \
                    sum(1 for k in d.attr if k[0] == "n"):
                return [self.mk("Tuple", (self.key_node(k[1], it.site), v) if k[0] == "k" else (v[0], v[1]), None,
                                it.site) for k, v in self.dict_items(d)]
        if it.op == "Const" and isinstance(it.attr, tuple) and len(it.attr) <= limit:
            return [self.const(x) for x in it.attr]
        return None

    def _comp(self, e, fr, st, kind):
        site = self.site_of(e, fr)
        if len(e.generators) != 1:
            return self.unknown("nested-comprehension", site)
        gen = e.generators[0]
        it = self.val(gen.iter, fr, st)
        return self._comp_it(e, fr, st, kind, it, site)

    def _comp_it(self, e, fr, st, kind, it, site, depth=0):
        gen = e.generators[0]
        if it.op == "Phi" and depth < 4 and all(a.op == "Phi" or self.known_items(a) is not None
                                                  for a in it.args[1:]):
            # the iterated sequence was chosen by a branch: evaluate the comprehension once per alternative
            c = it.args[0]
            base_pc = st.pc
            s1, s2 = st.copy(), st.copy()
            s1.pc = base_pc + ((c, True),)
            s2.pc = base_pc + ((c, False),)
            v1 = self._comp_it(e, fr, s1, kind, it.args[1], site, depth + 1)
            v2 = self._comp_it(e, fr, s2, kind, it.args[2], site, depth + 1)
            st.assign_from(self.merge2(c, s1, s2, base_pc))
            return self.phi(c, v1, v2, site)
        if it.op == "ListOf" and kind in ("list", "gen") and not gen.ifs:
            # one value per element of a homogeneous result list: again such a list, of the mapped element
            saved_l = dict(st.locals)
            try:
                self.assign(gen.target, it.args[0], fr, st)
                el = self.eval(e.elt, fr, st)
            finally:
                st.locals.clear()
                st.locals.update(saved_l)
            lo = self.mk("ListOf", (self.snapshot(el, st),), it.attr, site)
            lo.extra = dict(it.extra or {})
            return lo
        saved = dict(st.locals)
        try:
            if it.op == "CondList" and kind in ("list", "gen"):
                # a comprehension over conditionally present items: each mapped item is present under its condition
                pairs = []
                for cn0, x in zip(it.args[0::2], it.args[1::2]):
                    self.assign(gen.target, x, fr, st)
                    cs = [self.val(cnd, fr, st) for cnd in gen.ifs]
                    ts = [self.truth(c_) for c_ in cs]
                    if any(t is False for t in ts):
                        continue
                    rest = [c_ for c_, t in zip(cs, ts) if t is None]
                    if not (cn0.op == "Const" and cn0.attr is True):
                        rest = [cn0] + rest
                    cn = self.const(True) if not rest else (rest[0] if len(rest) == 1 else
                                                           self.mk("BoolOp", tuple(rest), "And", site))
                    pairs.append((cn, self.eval(e.elt, fr, st)))
                return self.mk("CondList", tuple(x for pr_ in pairs for x in pr_), kind, site)
            items = self.known_items(it)
            if items is not None and kind in ("list", "gen") and gen.ifs:
                # filters that do not fold: keep (condition, element) per item
                pairs, symbolic = [], False
                for x in items:
                    self.assign(gen.target, x, fr, st)
                    cs = [self.val(cnd, fr, st) for cnd in gen.ifs]
                    ts = [self.truth(c_) for c_ in cs]
                    if any(t is False for t in ts):
                        continue
                    rest = [c_ for c_, t in zip(cs, ts) if t is None]
                    if rest:
                        symbolic = True
                    cn = self.const(True) if not rest else (rest[0] if len(rest) == 1 else
                                                           self.mk("BoolOp", tuple(rest), "And", site))
                    pairs.append((cn, self.eval(e.elt, fr, st)))
                if symbolic:
                    flat = [x for pr_ in pairs for x in pr_]
                    return self.mk("CondList", tuple(flat), kind, site)
            if items is not None and kind in ("list", "gen", "dict"):
                out, keys = [], []
                ok = True
                for x in items:
                    self.assign(gen.target, x, fr, st)
                    skip = False
                    for cnd in gen.ifs:
                        t = self.truth(self.val(cnd, fr, st))
                        if t is None:
                            ok = False
                        elif not t:
                            skip = True
                    if not ok:
                        break
                    if skip:
                        continue
                    if kind == "dict":
                        k = self.val(e.key, fr, st)
                        v = self.eval(e.value, fr, st)
                        ck_ = self.const_key(k)
                        if ck_ is self.NOKEY:
                            ok = False
                            break
                        keys.append(("k", ck_))
                        out.append(v)
                    else:
                        out.append(self.eval(e.elt, fr, st))
                if ok:
                    if kind == "dict":
                        return self.mk("Dict", out, tuple(keys), site)
                    return self.mk("List", out, None, site)
            self.assign(gen.target, self.iter_elem(it, site), fr, st)
            conds = [self.val(c, fr, st) for c in gen.ifs]
            if kind == "dict":
                k = self.val(e.key, fr, st)
                v = self.val(e.value, fr, st)
                return self.mk("DictComp", (it, k, v, *conds), None, site)
            elt = self.val(e.elt, fr, st)
            return self.mk("ListComp", (it, elt, *conds), kind, site)
        finally:
            # comprehension scope: targets do not leak
            for k in list(st.locals):
                if k not in saved:
                    del st.locals[k]
                else:
                    st.locals[k] = saved[k]

    def ev_ListComp(self, e, fr, st):
        return self._comp(e, fr, st, "list")

    def ev_GeneratorExp(self, e, fr, st):
        return self._comp(e, fr, st, "gen")

    def ev_SetComp(self, e, fr, st):
        return self._comp(e, fr, st, "set")

    def ev_DictComp(self, e, fr, st):
        return self._comp(e, fr, st, "dict")
