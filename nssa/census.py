"""Package-wide syntactic censuses (AST + import maps): call sites of selected external APIs."""
from __future__ import annotations

import ast
from typing import List, Tuple

from .loader import ModInfo, Program


def dotted(node) -> str:
    parts = []
    while isinstance(node, ast.Attribute):
        parts.append(node.attr)
        node = node.value
    if isinstance(node, ast.Name):
        parts.append(node.id)
        return ".".join(reversed(parts))
    return ""


def resolve(mod: ModInfo, name: str) -> str:
    """qualified external name of a dotted expression using the module's imports"""
    if not name:
        return ""
    head, _, rest = name.partition(".")
    imp = mod.imports.get(head)
    if imp is None:
        return name
    if imp[0] == "mod":
        base = imp[1]
    elif imp[0] == "sym":
        base = f"{imp[1]}.{imp[2]}" if imp[1] else imp[2]
    else:
        return name
    return base + ("." + rest if rest else "")


def enclosing_functions(tree):
    """map id(node) -> qualified name of the enclosing def"""
    out = {}

    def rec(node, qual):
        for ch in ast.iter_child_nodes(node):
            q = qual
            if isinstance(ch, (ast.FunctionDef, ast.AsyncFunctionDef, ast.ClassDef)):
                q = (qual + "." if qual else "") + ch.name
            out[id(ch)] = q
            rec(ch, q)
    rec(tree, "")
    return out


def calls(prog: Program, pred) -> List[Tuple[ModInfo, ast.Call, str, str]]:
    """(module, call node, qualified callee, enclosing function) for every call whose resolved
    callee satisfies pred"""
    out = []
    for m in prog.modules.values():
        enc = None
        for n in ast.walk(m.tree):
            if isinstance(n, ast.Call):
                q = resolve(m, dotted(n.func))
                if q and pred(q):
                    if enc is None:
                        enc = enclosing_functions(m.tree)
                    out.append((m, n, q, enc.get(id(n), "")))
    return out
